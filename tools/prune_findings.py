#!/usr/bin/env python3
"""prune_findings.py <Cnn> <logfile> [<logfile> ...]: drop known entries of the property that the given
check logs (quick and thorough runs on the current tree) no longer report."""
import json, re, sys
prop = sys.argv[1]
seen = set()
for lf in sys.argv[2:]:
    for line in open(lf):
        m = re.match(rf"KNOWN-FINDING: property={prop} (.*?): ", line)
        if m: seen.add(m.group(1))
f = json.load(open("/verif/known_findings.json"))
known = {e["key"] for e in f["known"] if e["property"] == prop}
# keys contain ': ' rarely; match by prefix to be safe
keep = []
drop = 0
for e in f["known"]:
    if e["property"] != prop: keep.append(e); continue
    if e["key"] in seen or any(line.startswith(e["key"]) for line in seen): keep.append(e)
    else: drop += 1
f["known"] = keep
json.dump(f, open("/verif/known_findings.json", "w"), indent=1)
print(f"{prop}: kept {len([e for e in keep if e['property']==prop])}, dropped {drop}")
