#!/bin/sh
# Offline setup: nothing to build (pure Python run by /venv/bin/python; TLC jar pre-installed).
# Verifies the interpreter, greenlet and the repo import, and creates output dirs.
set -e
cd "$(dirname "$0")/.."
mkdir -p evidence replays
/venv/bin/python - <<'PY'
import sys
sys.path.insert(0, "/repo")
import pynetdicom, pydicom
try:
    import greenlet
    print("greenlet", greenlet.__version__)
except ImportError:
    print("greenlet missing: thread-baton backend will be used")
print("pynetdicom", pynetdicom.__version__, "pydicom", pydicom.__version__)
PY
