#!/bin/sh
# muttest.sh <patch.diff> <Cnn> [<Cnn> ...]  - apply a patch to a scratch worktree of
# /repo, run the given checks against it (evidence/replays go to a temp dir), remove it.
# Prints DETECTED/MISSED per check.  Env TIER=quick|thorough (default quick).
P="$(realpath "$1")"; shift
HERE="$(cd "$(dirname "$0")/.." && pwd)"
W="$(mktemp -d /tmp/mut.XXXXXX)"; E="$(mktemp -d /tmp/mutev.XXXXXX)"
git -C /repo worktree add --detach -q "$W" HEAD || exit 2
if ! git -C "$W" apply "$P"; then echo "PATCH-FAILED $P"; git -C /repo worktree remove --force "$W"; rm -rf "$E"; exit 2; fi
for c in "$@"; do
  VERIF_REPO="$W" VERIF_EVIDENCE_DIR="$E" VERIF_REPLAY_DIR="$E" "$HERE/bin/check" "$c" --tier "${TIER:-quick}" > "$E/$c.log" 2>&1
  rc=$?
  if [ $rc -eq 1 ] && grep -q "^VIOLATION property=$c" "$E/$c.log"; then echo "DETECTED $c $(basename "$P"): $(grep -m1 'violation key' "$E/$c.log" | cut -c1-220)";
  elif [ $rc -eq 0 ]; then echo "MISSED   $c $(basename "$P")";
  else echo "ERROR    $c $(basename "$P") rc=$rc"; tail -5 "$E/$c.log"; fi
done
git -C /repo worktree remove --force "$W"; rm -rf "$E"
