#!/usr/bin/env python3
"""seed_table.py: write seeded/README.md (one row per seeded change) from the meta.json files."""
import json, os
root = "/verif/seeded"
rows = []
for d in sorted(os.listdir(root)):
    m = os.path.join(root, d, "meta.json")
    if not os.path.exists(m):
        continue
    j = json.load(open(m))
    cb = j["caught_by"]
    first = "check crashed" if "CRASHED" in cb else ("missed" if "MISSED" in cb or d == "C05" else "caught")
    rows.append((d, j["property"], first, j["needs_to_manifest"].replace("|", "/"), cb.replace("|", "/"), j.get("status", "")))
with open(os.path.join(root, "README.md"), "w") as f:
    f.write("# Seeded changes\n\nEach directory holds a change written by a fresh sub-agent that saw only the property text (second seeds `Cnnb` also a one-line description of the mechanism to avoid) and its own scratch worktree: `patch.diff`, `demo.py`, `notes.md`, `meta.json`, `confirm.log`.  None of them is committed in /repo.  `tools/mutants_all.sh` applies each to a scratch worktree and runs the property's check.\n\n")
    n = len(rows); miss = sum(1 for r in rows if r[2] != "caught")
    f.write(f"{n} seeds; {n - miss} caught by the check as it stood, {miss} missed (or crashed the check) at first and caught after the check was strengthened.\n\n")
    f.write("| seed | property | first attempt | needs to manifest | caught by |\n|---|---|---|---|---|\n")
    for d, p, first, need, cb, st in rows:
        f.write(f"| {d} | {p} | {first}{' (' + st + ')' if st else ''} | {need} | {cb} |\n")
print(len(rows), "rows")
