#!/bin/sh
# mutants_all.sh: run every patch under mutants/ (check id = file name prefix cNN_) and every seeded/<id>/patch.diff
# through tools/muttest.sh and write mutants/RESULTS.md (one line per patch: DETECTED / MISSED and the first key).
HERE="$(cd "$(dirname "$0")/.." && pwd)"; cd "$HERE" || exit 2
OUT=mutants/RESULTS.md
{
echo "# Detection results ($(date -u +%F), /repo $(git -C /repo rev-parse --short HEAD), tier ${TIER:-quick})"
echo
echo "| patch | check | result | first violation key |"
echo "|---|---|---|---|"
for f in mutants/c[0-9][0-9]_*.diff; do
  id=$(basename "$f" | cut -c1-3 | tr c C)
  r=$(tools/muttest.sh "$f" "$id" 2>&1 | tail -1)
  res=$(echo "$r" | awk '{print $1}')
  key=$(echo "$r" | sed -n 's/.*violation key=\([^ ]*\): .*/\1/p' | cut -c1-90)
  echo "| $(basename "$f") | $id | $res | \`$key\` |"
done
for d in seeded/C*/; do
  id=$(basename "$d")
  # a seeded change whose defect class has since been repaired in /repo no longer violates the property (see its meta.json)
  if grep -q '"status": "obsolete' "$d/meta.json" 2>/dev/null; then echo "| seeded/$id/patch.diff | $id | OBSOLETE (see seeded/$id/meta.json) | |"; continue; fi
  chk=$(echo "$id" | cut -c1-3)   # seeded/C05b is a second seed for C05
  # a seed written for one property may be caught by the check of a neighbouring one (see its meta.json)
  ov=$(sed -n 's/.*"check_override": "\(C[0-9][0-9]\)".*/\1/p' "$d/meta.json" 2>/dev/null | head -1); [ -n "$ov" ] && chk="$ov"
  r=$(tools/muttest.sh "$d/patch.diff" "$chk" 2>&1 | tail -1)
  res=$(echo "$r" | awk '{print $1}')
  key=$(echo "$r" | sed -n 's/.*violation key=\([^ ]*\): .*/\1/p' | cut -c1-90)
  echo "| seeded/$id/patch.diff | $chk | $res | \`$key\` |"
done
} > "$OUT.tmp" && mv "$OUT.tmp" "$OUT"
grep -c DETECTED "$OUT"; grep -c MISSED "$OUT"
