#!/usr/bin/env python3
"""Regenerate MANIFEST.json from the table below (run after adding a check)."""
import json
import os

HERE = os.path.dirname(os.path.dirname(os.path.abspath(__file__)))

# id: (category, engine, technique, text, note, design_ref)
CHECKS = {
    "C01": (
        "exploration",
        "enum",
        "bounded-exhaustive enumeration of PDU values through the real primitive/PDU/bytes round trip against an independent reference codec in both directions",
        "Values of all seven PDU types over per-field domains (AE titles, UIDs of 1..64 characters, context IDs, all legal result/source/reason codes, 1..3 presentation contexts x 1..3 transfer syntaxes, every combination and multiplicity <= 2 of the optional user-information sub-item kinds, user-identity types 1..5 with field lengths 1..300, P-DATA lists of 1..3 PDVs up to 70000 bytes, and every opaque octet field filled with 53 byte strings that begin / end with or consist of 0x00, space, 0xFF, LF): the produced bytes are decoded by a strict reference decoder that verifies every length field, compared by value and byte for byte with the PS3.8 layout, decoded and re-encoded by the implementation, converted back to primitives, and the reference encoding of the same value is decoded by the implementation.",
        "Reference codec transcribed from PS3.8 9.3 / PS3.7 D.3.3 (vk/ref/codec.py); sub-item order is not prescribed by the standard and is compared as a multiset.",
        "3/C01",
    ),
    "C02": (
        "exploration",
        "enum",
        "bounded-exhaustive mutation enumeration of received byte strings through the real provider read path, with re-encode/re-decode stability and a conformant-PDU acceptance list",
        "42k inputs per run: the full grid of 256 type bytes x 11 length values x 3 body shapes; for 19 seed PDUs (built by the reference codec, one per PDU type and sub-item kind) every prefix, every single-byte substitution by 7 values, every length field set to 7 boundary values, every item-type byte replaced by every other value, extensions, all permutations / duplications / omissions of the variable items, control and non-ASCII bytes; 15 PDUs that conform to PS3.8 but that pynetdicom never emits.  Each goes through the real DULServiceProvider._read_pdu_data over an in-memory socket and, when it decodes, through the real state machine action for its event in the state in which that PDU is expected (conversion to a primitive, hand-over to ACSE/DIMSE, replies): no exception or hang in either step, exactly one event, a decoded PDU must re-encode and re-decode to itself, conformant PDUs must be accepted (and an A-ASSOCIATE-RQ must take the provider from Sta2 to Sta3).",
        "A decoder running more than 5 s on one input counts as a hang; conformance of the unusual list is established by the reference decoder and PS3.8 9.3.",
        "3/C02",
    ),
    "C03": (
        "model_checking",
        "sim",
        "exhaustive enumeration of segmentation points and close offsets of a PDU stream fed to the real acceptor under the simulated transport",
        "A raw peer sends association request, pipelined P-DATA (one PDV, a message split over two PDUs, two PDVs in one PDU), a 5 kB association request and a release request to the real provider/association threads; the stream is cut at every byte position (all pairs in the thorough tier), with and without inter-segment delay, uniformly in 1..64-byte and 512..4096-byte segments, and the connection is closed at every byte offset; received-PDU notifications, decoded bytes, handler calls, responses and outcome must be independent of the segmentation and a close inside a PDU must surface as Evt17.",
        "Simulated transport preserves segment boundaries (one recv returns at most one segment); default schedule.",
        "3/C03",
    ),
    "C04": (
        "model_checking",
        "tlc",
        "TLC explicit-state exploration of an independent TLA+ transcription of PS3.8 9.2; every edge and non-edge of the dumped graph replayed on the real StateMachine.do_action",
        "TLC enumerates the complete transition relation of models/PS38.tla (all 13 states x 19 events x roles x protocol-version) and checks the transcription's own invariants; all 988 (state,event,role,pv) cases - 492 edges and 496 non-edges - are replayed on the real state machine with a recording socket and the real ARTIM timer on a fake clock (every edge from three timer histories: never started, running, stopped) and the next state and full effect set compared, the ARTIM effect by whether the real timer subsequently expires; in addition every two-step trace of the model (2111 pairs of consecutive edges) is replayed on one provider object and the second action compared the same way.  The space is finite and completely covered.",
        "Trusts TLC, the transcription of PS3.8 in models/PS38.tla (DESIGN.md A.3) and the recording doubles under the real AssociationSocket/Timer.",
        "3/C04",
    ),
    "C05": (
        "model_checking",
        "sim",
        "explicit-state BFS over event histories at quiescent states of the real code (canonical-state de-duplication) plus deviation-bounded exhaustive schedule exploration",
        "The real provider/association/ACSE code runs as coroutines under a controlled scheduler with virtual time and simulated sockets.  Layer A enumerates every history (peer PDUs of 15 kinds, 48 bursts of two PDUs in one segment, first bytes sent right after connect, close, reset, timer expiry and peer actions racing a deadline, local user calls) up to the reported depth with canonical-state merging and closes each with a silent peer; layer B enumerates every schedule of the two-AE life-cycle scenarios with at most D deviations from the default scheduler.  Monitors: no undefined event / uncaught exception in any thread, provider back in Sta1, thread finished, transport closed.",
        "Thread switches only at OS-service calls and watched shared flags (CPython bytecode atomicity assumed); socket/queue/event doubles validated against the OS by the fidelity self-test; bounds as reported in evidence.",
        "3/C05",
    ),
    "C06": (
        "model_checking",
        "sim",
        "deviation-bounded exhaustive exploration of thread schedules of two real AEs under a controlled scheduler",
        "Two real application entities (requestor + acceptor server) with all pairs of user scripts (release, abort, echo, idle, release/abort from handlers and from a second thread): every schedule with at most D deviations from the deterministic default scheduler is executed to completion on the real code; monitors check one terminal flag and one terminal event per side, agreement of both sides, all threads finished, sockets closed, provider idle and the time bound.",
        "Same trusted base as C05; D=1 quick, D=2 thorough; prompt virtual time.",
        "3/C06",
    ),
    "C07": (
        "model_checking",
        "sim",
        "enumeration of every arrival point of a peer's A-RELEASE-RQ relative to the real service-class loops, with deviation-bounded schedule exploration around it",
        "A byte-level raw peer runs C-FIND, C-GET and C-MOVE operations against the real acceptor (handlers yielding 0..3 results; C-MOVE sub-operations run over a real sub-association to a second real AE under the same scheduler) and sends A-RELEASE-RQ while idle, back to back with the request (one and two segments), at every yield position (the handler is held until the request has reached the local provider), in place of every C-STORE sub-operation response of a C-GET and after the final response; quick: default schedule for all 82 arrival points plus all schedules with <= 1 deviation for the n=2 cases, thorough: <= 1 deviation for all.  The peer must receive A-RELEASE-RP promptly and the local association must end released, unless pynetdicom aborted for the documented DIMSE-timeout reason.",
        "Same trusted base as C05/C06.",
        "3/C07",
    ),
    "C08": (
        "fault_enumeration",
        "sim",
        "enumeration of every byte offset at which a raw peer falls silent (plus dribbling and a never-completing connect) against the real code in virtual time",
        "For both roles the peer's valid byte stream is delivered up to every byte offset of every phase and then nothing more arrives while the connection stays open; in addition a peer that never stops sending P-DATA (whole PDUs, and segments that end inside the next PDU) after leaving a C-ECHO unanswered, after a second A-ASSOCIATE-RQ and after a completed release; prompt virtual time makes elapsed time meaningful, so the check requires every API call and every provider/association thread to finish within the relevant timeout plus margin and the socket to be closed; a thread blocked without deadline is reported with its call site.",
        "Accepted sockets carry no timeout (CPython semantics); default schedule; quick tier every 5th offset plus all offsets within 7 bytes of PDU boundaries, thorough every offset.",
        "3/C08",
    ),
    "C09": (
        "model_checking",
        "enum",
        "explicit-state BFS over operation sequences on the real Timer against an elapsed-time reference model, plus wall-clock-step injection into running simulated associations",
        "All sequences of start/stop/restart/timeout changes/clock advances/wall-clock steps up to the reported depth are executed on the real Timer with de-duplication on the canonical timer state; expired and remaining are compared with the reference at every step.  The same wall-clock steps (+-1 s, +-1 h at five instants) are injected into four real life-cycle scenarios under the simulator and must change neither outcome nor end time.",
        "time enters pynetdicom.timer only through its module-level `time` reference; reference model per DESIGN.md A.5.",
        "3/C09",
    ),
    "C10": (
        "exploration",
        "enum",
        "bounded-exhaustive enumeration of proposals x supported configurations x role proposals through the real negotiation functions against a reference model",
        "Every combination of 1-2 (thorough: 3) proposed contexts over five kinds of abstract syntax with duplicates, transfer-syntax lists, supported configurations (absent or preference list with roles in {None,True,False}^2) and role proposals {absent,TT,TF,FT,FF}, plus a 128-context proposal and every ordered non-empty sub-list of four transfer syntaxes on both sides (64 x 64), is run through negotiate_as_acceptor and negotiate_unrestricted and compared with vk/ref/neg.py: one result per ID with the proposed abstract syntax, result codes, acceptor-preferred transfer syntax, granted roles, role replies never exceeding the proposal, never accepted without a role.",
        "Reference transcribed from PS3.8 / PS3.7 D.3.3.4 and the documented role table; role proposals restricted to what the wire can carry (booleans).",
        "3/C10",
    ),
    "C15": (
        "exploration",
        "enum",
        "bounded-exhaustive enumeration of maximum lengths x command-set lengths x every data-set length x backing through the real encode_msg, and of every grouping of the fragments through the real decode_msg",
        "Every data-set length from 0 to three fragments plus one for each small maximum length (7..64), boundary lengths around k*(max-6) and k*max for the large maxima, in-memory and file-backed, is fragmented by the real encode_msg; PDV-list and PDU lengths, ordering and last-fragment flags are checked against PS3.8 Annex E and every grouping of the fragments into P-DATA primitives (all 2^(n-1) when n <= 7) is reassembled by the real decode_msg and compared byte for byte.",
        "Only lengths vary (fixed non-periodic content); large maxima are covered at boundary lengths only.",
        "3/C15",
    ),
    "C17": (
        "exploration",
        "enum",
        "bounded-exhaustive enumeration of parameter subsets and boundary values for all 23 DIMSE message types through the real primitive/message/encode/decode round trip",
        "For each message type every subset of the parameters PS3.7 gives it, every boundary value one at a time (pairs in the thorough tier), message IDs {0,1,65535} and data set absent/present are converted primitive -> message -> P-DATA -> message -> primitive with the real code; type, direction, every parameter incl. multi-valued attribute lists and the data-set bytes must survive, CommandField must equal the PS3.7 value and CommandGroupLength the length of the remaining command set.",
        "Message/parameter table transcribed from PS3.7 (vk/ref/cmd.py).",
        "3/C17",
    ),
    "C20": (
        "exploration",
        "enum",
        "bounded-exhaustive enumeration of handler behaviours (yield sequences, exceptions, malformed results, sub-operation outcomes) through the real SCP implementations with a recording DIMSE provider",
        "C-FIND / C-GET / C-MOVE: every yield sequence up to length 2 (thorough 3) over alphabets of 19 items, exceptions and handler aborts at every position, announced counts, destinations, loss of the C-MOVE sub-association, handler raising / returning None / a list; C-ECHO, C-STORE and the six DIMSE-N services: every return shape.  Oracle: Pending* (0xB001 allowed in C-FIND) then exactly one final response, every response with the request's message ID on the request's context, nothing after the final, final missing only after an abort.",
        "DIMSE provider, C-STORE sub-operations and the C-MOVE sub-association are scripted doubles around the real service-class code.",
        "3/C20",
    ),
    "C21": (
        "exploration",
        "enum",
        "exhaustive enumeration of handler result shapes and of every status of each service's table through the real SCP implementations against the documented mapping",
        "For C-FIND/C-GET/C-MOVE every status of the service's table (as int and as status dataset with optional elements), eight malformed or raising shapes, and a dataset pool under four transfer syntaxes; for C-ECHO, C-STORE and the six DIMSE-N services 12 status shapes (incl. optional status elements with falsy values) x 4 dataset shapes + 5 special shapes, the dataset-bearing DIMSE-N responses under all four uncompressed / deflated transfer syntaxes: the response status must be the supplied one (status elements copied) or the documented failure code (0xC001, 0xC002, 0xC211, 0xC311/0xC411/0xC511, 0xC312, 0x0110, C-ECHO 0x0000) and response datasets must decode equal to the handler's under the negotiated transfer syntax.",
        "Recording DIMSE double runs the real primitive-to-message conversion and fragmentation; data-set equality uses pydicom's codec.",
        "3/C21",
    ),
    "C22": (
        "exploration",
        "enum",
        "bounded-exhaustive enumeration of C-GET/C-MOVE handler yield sequences x sub-operation outcomes x announced counts through the real SCP loops",
        "For announced N in {1,2,3} every yield sequence up to min(3 (thorough 4), N+2) over 12 items (valid dataset x {success, warning, failure, exception, unknown status, missing status}, None, non-dataset, final statuses) is run through the real _get_scp/_move_scp; every Pending must satisfy remaining+completed+failed+warning = N with monotone counters, the final must have completed+failed+warning <= N, list exactly the failed instances and carry Success / 0xA702 / 0xB000 as the counters dictate.",
        "Sub-operations are scripted stubs of send_c_store.",
        "3/C22",
    ),
    "C11": (
        "exploration",
        "enum",
        "bounded-exhaustive enumeration of negotiation configurations carried through the real RQ/AC wire path between two real AEs under the simulator",
        "2500 (thorough: + 27 context triples) configurations of requested contexts, role proposals and supported contexts with role settings are each run as a full association between two real application entities: every proposed context must appear exactly once on the requestor side as accepted or rejected, both sides must hold the same accepted IDs with the same abstract and transfer syntaxes, and their roles must be complementary.",
        "Default schedule of the simulator; a codec error that is symmetric in both pynetdicom endpoints is invisible here (C01 covers it).",
        "3/C11",
    ),
    "C12": (
        "exploration",
        "enum",
        "enumeration of AE configurations, each run as a real association under the simulator, with the RQ/AC bytes from the wire tap checked by a strict reference decoder",
        "447 configurations (1..128 requested contexts with repeated abstract syntaxes, context objects handed to associate() that already carry IDs (every assignment of {none,1,3,5,255} to 2 and 3 contexts), AE titles incl. space-padded values beyond 16 characters (whatever the API accepts must come out as a legal 16-byte field), maximum PDU sizes, implementation UID / version names, every subset of extended-negotiation items incl. user identity types 1..5): the A-ASSOCIATE-RQ and the A-ASSOCIATE-AC/RJ on the wire are decoded by the strict reference decoder (every length field verified) and checked for 1..128 contexts with distinct odd IDs, one abstract and >= 1 transfer syntax each, exactly one application-context and user-information item with exactly one maximum-length and implementation-class item, one result per proposed context, a transfer syntax on every accepted item, legal non-blank AE titles and legal UIDs.",
        "Structural rules from PS3.8 9.3.2/9.3.3 and PS3.5.",
        "3/C12",
    ),
    "C13": (
        "exploration",
        "enum",
        "enumeration of AE-title byte fields x policy configurations x identity handler behaviours against a real acceptor under the simulator, compared with a reference policy",
        "A raw peer sends reference-built A-ASSOCIATE-RQs whose calling/called title fields range over all non-blank strings of length <= 3 over {A,a,space} placed left/right/centred in the 16-byte field (plus 16-character, inner-space and NUL-padded forms) for four required-calling lists, the called-title check with three own titles, and user-identity types 1..5 x {unbound, (True,None), (True,response), (False,None), raises}; established iff every enabled check passes, otherwise A-ASSOCIATE-RJ with a documented triple of a failed check and no service handler invocation; accepted associations must serve a C-ECHO.",
        "Precedence between several failed checks is not judged; NUL-padded titles are unconstrained.",
        "3/C13",
    ),
    "C14": (
        "model_checking",
        "sim",
        "deviation-bounded exhaustive exploration of the interleavings of N+1 concurrent association negotiations against a real acceptor AE",
        "A real acceptor AE with maximum_associations = L and L+1 (thorough also L+2) real requestors connecting at once, served by the single-threaded and by the threaded association server (one handler thread per connection), plus staggered arrivals while an earlier association is being released and a slow acceptor-side handler at each of seven early events: every schedule with at most D deviations (D=1; thorough D=2 for the smallest crowd) of the server, negotiation, provider and user threads; at every EVT_ESTABLISHED the simultaneously established acceptor associations are counted against L and every rejection must carry (transient, presentation, local-limit-exceeded).",
        "Same trusted base as C05/C06; over-rejection while negotiations overlap is allowed by the property.",
        "3/C14",
    ),
    "C16": (
        "exploration",
        "enum",
        "exhaustive enumeration of message types x data-set parameter shapes through the real conversion/fragmentation/reassembly, plus end-to-end runs of every send_* operation between two real AEs under the simulator",
        "All 23 message types with absent / empty / non-empty data set, and every data-set-bearing type with data-set lengths around the multiples of the fragment size for maximum lengths {16382, 32, 0} (all primitives produced before any is consumed): the command set must announce a data set exactly when data-set fragments are sent and the real decode_msg must complete the message without raising.  52 end-to-end scenarios (10 public send_* operations x request data set x response data set incl. empty pydicom Datasets and None) between two real AEs: the peer's handler is invoked, the SCU gets its status, nobody waits for the DIMSE timeout, the association survives.",
        "End-to-end layer uses the simulator (default schedule; thorough: <= 1 deviation).",
        "3/C16",
    ),
    "C18": (
        "exploration",
        "enum",
        "bounded-exhaustive enumeration of accepted-context sets x send operations on a real Association with a recording DIMSE provider",
        "Accepted-context sets of size 1, 2 (thorough 3) over four abstract syntaxes, five transfer syntaxes and four role combinations, against C-STORE of CT/MR datasets with each of five file-meta transfer syntaxes, C-FIND and N-GET with the UPS substitution: any message that is sent must be on an accepted context with the right abstract syntax, the SCU role, a compatible transfer syntax (identical, or both uncompressed with equal byte order) and bytes that decode under the context's syntax to the original dataset; otherwise the call must raise before sending.",
        "Transfer-syntax properties transcribed from PS3.5 Annex A; datasets built from scratch.",
        "3/C18",
    ),
    "C19": (
        "exploration",
        "enum",
        "complete enumeration of context IDs 0..255 x request types x accepted sets through the real request-dispatch paths",
        "For three accepted-context sets every context ID 0..255 is combined with all 11 request types through the real Association._serve_request and with C-STORE sub-operation requests through the real _wrap_get_move_responses/_c_store_scp path, with recording handlers bound to every C-/N- intervention event; a pipelined layer sends, through the real reactor under the simulator, a C-ECHO on an accepted context immediately followed by a second request (6 types) on every context ID, incl. requests whose command set is on a non-accepted ID while the data-set fragments carry an accepted one: an ID outside the accepted set must invoke no handler and receive no success / pending / warning response.",
        "Requests are delivered as decoded primitives; DIMSE provider is a recording double.",
        "3/C19",
    ),
    "C23": (
        "model_checking",
        "sim",
        "enumeration of every arrival point and message-ID relation of C-CANCEL relative to two consecutive operations on the real acceptor, with deviation-bounded schedule exploration",
        "A byte-level raw peer runs two consecutive C-FIND / C-GET operations (equal or different message IDs, incl. the IDs 0 and 65535) whose handler polls is_cancelled before each yield, and sends C-CANCEL with the ID of the running, the other or neither operation while idle before / between / after the operations and at every poll (handler held until the provider thread has taken the cancel in), plus 9..12 stale cancels; default schedule for all 166 scenarios and every schedule with <= 1 deviation for the C-FIND n=1 family.  A handler may see True only at the poll following a cancel with its own ID that arrived while it ran.",
        "Same trusted base as C05/C06.",
        "3/C23",
    ),
    "C24": (
        "exploration",
        "enum",
        "bounded-exhaustive enumeration of peer response sequences through the real SCU response iterators with a scripted DIMSE provider, against a reference iteration",
        "Every peer response sequence up to length 3 (thorough 4) over 11/12 kinds (Pending with valid / undecodable at stream level / undecodable only when read / missing identifier, final statuses of every category with and without identifiers, response without Status, wrong message type, C-STORE sub-operation requests on valid and invalid contexts, nothing until the timeout) is fed to the real send_c_find / send_c_get / send_c_move iterators and 7 single-response calls x 4 peer behaviours; yields are compared one to one with a reference iteration, aborts where documented, and the AE lock and reactor checkpoint are inspected at every suspension and at the end.",
        "DIMSE provider is scripted; identifiers that make pydicom raise stand for undecodable data.",
        "3/C24",
    ),
    "C25": (
        "exploration",
        "enum",
        "enumeration of datasets x transfer syntaxes x PDU sizes x chunked modes x operations, each run end to end between two real AEs under the simulator",
        "Datasets built from an 18-element pool covering the VR classes (each element alone, the full pool, pairs), four transfer syntaxes, maximum PDU 0 / 16382 / small values that split inside element headers, chunked send and chunked receive on and off, datasets that declare each other convertible transfer syntax than the accepted context's, C-STORE, C-FIND identifier and response, C-GET sub-operation and four DIMSE-N request/response pairs: at the peer handler the decoded dataset, the raw encoded bytes and the chunked-receive file must each equal the original, and response datasets must equal at the SCU.",
        "pydicom's dataset codec and equality are trusted; private elements excluded.",
        "3/C25",
    ),
    "C26": (
        "model_checking",
        "sim",
        "differential replay of identical recorded schedules of the real code with and without raising notification handlers (deviation-bounded exhaustive)",
        "Every life-cycle scenario is executed in pairs under the same recorded schedule: all handlers returning vs. a raising handler for each of the 17 notification events alone (default schedule; D=1 thorough) and for all events at once (all schedules with <= 1 deviation), with six kinds of exception (ordinary message, empty text, failed assert, multi-line, non-ASCII / format-like text, text that cannot be produced); every byte on the wire in both directions, both outcomes, terminal events and uncaught exceptions must be identical.  Nine intervention-handler scenarios with raising handlers check the documented failure status / rejection.",
        "Same trusted base as C05/C06; raising handlers are bound after the observing handlers because pynetdicom stops calling an event's remaining handlers once one raises.",
        "3/C26",
    ),
    "C27": (
        "model_checking",
        "sim",
        "history monitor evaluated on every execution of a deviation-bounded exhaustive schedule exploration of two real AEs",
        "Every schedule with at most D deviations of all 25 two-AE life-cycle scenarios is executed on the real code with recording handlers bound to all notification events and a wire tap on the simulated connection; a second layer runs the real side against 11 scripted raw peers that end by staying silent with the connection open, with the 1st..8th (thorough 12th) invocation of the handler of each of the 17 notification events taking longer than the ARTIM time-out; a third (start-race) layer adds a scheduling point directly after every Thread.start() and adversarial time (early wake-ups of sleeping pollers) and explores every schedule with <= 2 such deviations; the monitor checks FSM-transition chaining, connection open/close ordering and multiplicity, established-before-terminal, and equality of PDU/DATA notifications with the bytes that crossed the wire.",
        "Same trusted base as C05/C06; bytes written to a connection whose peer already closed count as having crossed the wire; the post-start scheduling point and adversarial time are used by the start-race layer only (DESIGN.md 9.6).",
        "3/C27",
    ),
    "C28": (
        "exploration",
        "enum",
        "exhaustive enumeration of all 65536 codes and all table entries through the real code vs a reference categorisation",
        "Complete enumeration of the finite input space (65536 codes x code_to_category, every entry of all 18 status tables, every code through the real SCU iterators and C-FIND/GET/MOVE SCP loops); exhaustive, so the verdict is total for this property up to the stubbed DIMSE provider.",
        "Reference categorisation transcribed from PS3.7 Annex C; DIMSE provider replaced by a recording double; sub-operations stubbed to succeed.",
        "3/C28",
    ),
    "C29": (
        "exploration",
        "enum",
        "bounded-exhaustive enumeration of small databases x identifiers (every matching type per key at every level) through the real qrscp search()/handle_find() over SQLite against a reference matcher",
        "Every database of <= 3 instances out of an 8-instance universe incl. series / instance numbers 0 (plus the full universe; quick tier every k-th database) whose values separate literal characters from SQL wildcards and upper from lower case, combined with ~400 identifiers: every query level of both information models, every matching type per key (absent, universal, single value, * and ? wildcards, UID list, the three range forms), invalid hierarchies, and the C-GET/C-MOVE restriction to unique keys; the set of entities returned by the real search() and the responses of handle_find() must equal the set selected by the PS3.4 C.2.2.2 / C.4.1 reference, one response per entity.",
        "Reference matcher transcribed from PS3.4 (vk/ref/match.py); PN case sensitivity is left unconstrained; the DIMSE layer is not involved.",
        "3/C29",
    ),
    "C30": (
        "exploration",
        "enum",
        "bounded-exhaustive enumeration of SOP Instance / SOP Class UID strings over a path-metacharacter alphabet through the real handle_store of qrscp and storescp inside a snapshotted jail directory",
        "All strings of length <= 3 (thorough 4) over {'1', '.', '/', '\\\\', '~', NUL}, every string of length <= 2 followed by each of three traversal tails, runs of six filler characters at 14 lengths from 63 to 4097 followed by each of six tails, and 20 hostile strings (relative and absolute traversal, drive / UNC forms, newline, 300 characters) are used as SOP Instance UID (and the hostile and short ones as SOP Class UID) of a C-STORE event handed to the real handle_store of both apps, with the storage directory three levels deep in a jail containing decoy sub-directories; the complete jail is snapshotted before and after each call and everything created or modified must lie inside the storage directory (or be the database file).",
        "Handlers are called with an event double carrying a real pydicom Dataset; POSIX path semantics; symlinks inside the storage directory are not part of the alphabet.",
        "3/C30",
    ),
}

ALL = [f"C{i:02d}" for i in range(1, 31)]


def main():
    checks = []
    for pid in ALL:
        if pid not in CHECKS:
            continue
        cat, engine, tech, text, note, ref = CHECKS[pid]
        checks.append(
            {
                "property_id": pid,
                "quick_cmd": f"bin/check {pid} --tier quick",
                "thorough_cmd": f"bin/check {pid} --tier thorough",
                "evidence_file": f"/verif/evidence/{pid}.json",
                "replay_cmd_template": f"bin/check {pid} --replay {{path}}",
                "engine": engine,
                "level_claimed": {"category": cat, "text": text, "design_ref": f"DESIGN.md section {ref}"},
                "level_note": note,
                "technique": tech,
            }
        )
    na = [
        {"property_id": pid, "reason": "no check registered in this revision of /verif (machinery for it is not built yet); model checking is applicable per DESIGN.md section 3"}
        for pid in ALL
        if pid not in CHECKS
    ]
    man = {
        "version": 1,
        "setup_cmd": "sh tools/setup.sh",
        "hooks": {
            "guard": "PYNETDICOM_VERIF",
            "enable": "environment variable PYNETDICOM_VERIF=1 (set by bin/check); pynetdicom is imported from /repo's working tree (editable install), nothing to build",
            "baseline_off_cmd": "cd /repo && env -u PYNETDICOM_VERIF /venv/bin/python -m pytest -ra -q -p no:cacheprovider --timeout=900 --continue-on-collection-errors",
            "source_commits": [],
            "add_only": True,
        },
        "engines": [
            {"name": "enum", "path": "vk/core.py", "serves_properties": [p for p in ALL if p in CHECKS and CHECKS[p][1] == "enum"], "kind_free_text": "bounded-exhaustive enumeration of inputs / operation sequences on the real code against reference models, 16 worker processes"},
            {"name": "sim", "path": "vk/sim", "serves_properties": [p for p in ALL if p in CHECKS and CHECKS[p][1] == "sim"], "kind_free_text": "real pynetdicom threads as greenlets under a controlled scheduler with virtual time and simulated sockets; explicit-state / deviation-bounded exploration"},
            {"name": "tlc", "path": "vk/tlc.py", "serves_properties": [p for p in ALL if p in CHECKS and CHECKS[p][1] == "tlc"], "kind_free_text": "TLC explicit-state model of PS3.8 state machine; every edge and non-edge replayed against the implementation"},
        ],
        "checks": checks,
        "not_applicable": na,
        "notes": "See DESIGN.md. known_findings.json lists genuine defects recorded rather than repaired; checks print KNOWN-FINDING lines for them and exit 0.",
    }
    with open(os.path.join(HERE, "MANIFEST.json"), "w") as f:
        json.dump(man, f, indent=1)
        f.write("\n")
    print(f"{len(checks)} checks, {len(na)} not_applicable")


if __name__ == "__main__":
    main()
