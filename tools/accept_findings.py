#!/usr/bin/env python3
"""accept_findings.py <Cnn> [substring-filter]  - append the keys of the last run's
replays/<Cnn>-keys.json to known_findings.json (only after each class was reviewed by hand)."""
import json, sys
prop = sys.argv[1]; flt = sys.argv[2] if len(sys.argv) > 2 else ""
keys = json.load(open(f"/verif/replays/{prop}-keys.json"))
f = json.load(open("/verif/known_findings.json"))
have = {(e["property"], e["key"]) for e in f["known"]}
n = 0
for k, what in keys.items():
    if flt and flt not in k: continue
    if (prop, k) in have: continue
    f["known"].append({"property": prop, "key": k, "what": what[:400]}); n += 1
json.dump(f, open("/verif/known_findings.json", "w"), indent=1)
print(f"added {n} keys for {prop}")
