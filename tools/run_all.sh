#!/bin/sh
# run_all.sh [quick|thorough] [seed] [ids...]: run every registered check from a fresh process each,
# print one line per check (id, exit code, wall seconds, KNOWN-FINDING count, VIOLATION count) and keep the
# full output in $LOGDIR (default: a scratch directory outside /verif that is printed at the end).
TIER="${1:-quick}"; SEED="${2:-0}"; shift 2 2>/dev/null
HERE="$(cd "$(dirname "$0")/.." && pwd)"; cd "$HERE" || exit 2
LOGDIR="${LOGDIR:-$(mktemp -d /root/runall.XXXXXX)}"; mkdir -p "$LOGDIR"
IDS="$*"; [ -z "$IDS" ] && IDS=$(python3 -c "import json;print(' '.join(c['property_id'] for c in json.load(open('MANIFEST.json'))['checks']))")
bad=0
for id in $IDS; do
  t0=$(date +%s)
  VERIF_SEED="$SEED" timeout "${RUNALL_TIMEOUT:-7200}" bin/check "$id" --tier "$TIER" --seed "$SEED" > "$LOGDIR/$id.$TIER.$SEED.log" 2>&1; rc=$?
  t1=$(date +%s)
  kf=$(grep -c '^KNOWN-FINDING' "$LOGDIR/$id.$TIER.$SEED.log"); vi=$(grep -c '^VIOLATION' "$LOGDIR/$id.$TIER.$SEED.log")
  echo "$id rc=$rc wall=$((t1-t0))s known=$kf violations=$vi"
  [ "$rc" != 0 ] && bad=1
done
echo "logs: $LOGDIR"
exit $bad
