#!/usr/bin/env python3
"""accept_from_log.py <Cnn> <check log> [substring-filter]: append the violation keys printed in a check log
("  violation key=<key>: <what>") to known_findings.json - only after each class was reviewed by hand."""
import json, re, sys

prop, log = sys.argv[1], sys.argv[2]
flt = sys.argv[3] if len(sys.argv) > 3 else ""
f = json.load(open("/verif/known_findings.json"))
have = {(e["property"], e["key"]) for e in f["known"]}
n = 0
for line in open(log):
    m = re.match(r"\s+violation key=(.*?): (.*)", line)
    if not m:
        continue
    k, what = m.group(1), m.group(2)
    if flt and flt not in k:
        continue
    if (prop, k) in have:
        continue
    have.add((prop, k))
    f["known"].append({"property": prop, "key": k, "what": what[:400]})
    n += 1
json.dump(f, open("/verif/known_findings.json", "w"), indent=1)
print(f"added {n} keys for {prop}")
