#!/usr/bin/env python3
"""seed_meta.py <seed dir name> <needs> <caught_by> [base commit]: write seeded/<name>/meta.json"""
import json, os, sys
name, need, caught = sys.argv[1], sys.argv[2], sys.argv[3]
base = sys.argv[4] if len(sys.argv) > 4 else "0a6979c"
prop = name[:3]
d = os.path.join("/verif/seeded", name)
meta = {"property": prop, "patch": "patch.diff", "demonstration": "demo.py (written by the seeding sub-agent)", "needs_to_manifest": need,
        "origin": f"fresh sub-agent given only the property text (plus, for second seeds, a one-line description of the mechanism to avoid) and a scratch git worktree of /repo (HEAD {base}) under /tmp; nothing from /verif",
        "what_i_ran": [f"tools/confirm_seed.sh {name} --no-suite: demo.py exits 0 on the unchanged tree and 1 with patch.diff applied (confirm.log)", "the sub-agent's full pinned-suite run on the patched worktree (notes.md)", f"tools/muttest.sh seeded/{name}/patch.diff {prop}", "worktree removed with git worktree remove --force"],
        "caught_by": caught, "files": sorted(os.listdir(d))}
json.dump(meta, open(os.path.join(d, "meta.json"), "w"), indent=1)
print("wrote", d)
