#!/bin/sh
# confirm_seed.sh <id> [--no-suite]: independently confirm a seeded change kept in seeded/<id>/:
#  demo passes on the unchanged tree, fails with the patch, patched tree passes the pinned suite.
ID="$1"; HERE="$(cd "$(dirname "$0")/.." && pwd)"; S="$HERE/seeded/$ID"
W="$(mktemp -d /tmp/confirm.XXXXXX)"
git -C /repo worktree add --detach -q "$W" HEAD || exit 2
mkdir -p "$W/_seed"; cp "$S"/* "$W/_seed/" 2>/dev/null
DEMO=$(ls "$W/_seed" | grep -E '^demo.*\.py$' | head -1)
run_demo() { (cd "$W" && unshare -n sh -c "ip link set lo up; timeout 600 /venv/bin/python _seed/$DEMO" >"$W/_seed/out.$1" 2>&1; echo $?); }
{
echo "== confirm $ID $(date -u +%FT%TZ)"
r0=$(run_demo clean); echo "demo on unchanged tree: exit $r0"
git -C "$W" apply "$S/patch.diff" && echo "patch applied"
/venv/bin/python -c "import sys; sys.path.insert(0,'$W'); import pynetdicom; print('import ok', pynetdicom.__file__)"
r1=$(run_demo patched); echo "demo with patch: exit $r1"
if [ "$2" != "--no-suite" ]; then python3 /root/seedkit/run_tests.py "$W" | tail -4; echo "suite exit: $?"; fi
} > "$S/confirm.log" 2>&1
git -C /repo worktree remove --force "$W"
tail -6 "$S/confirm.log"
