"""E2 explorer - exhaustive, deviation-bounded exploration of schedules of the
real code (layer B) and breadth-first search over event histories at
quiescent states (layer A).  See DESIGN.md section 2.2.
"""
from __future__ import annotations

import collections
import hashlib
import time as _time

from vk import core, sim


class Scenario:
    """Override build/check/summary.  Instances must be picklable-free: the
    explorer forks workers after the scenario object exists."""

    name = "scenario"
    adversarial = False
    watch = True
    max_steps = 20000
    max_time = 120.0
    fast_forward = True

    def build(self, sched):
        raise NotImplementedError

    def check(self, sched, ctx, why):
        return []

    def summary(self, sched, ctx, why):
        return why


def execute(scn: Scenario, prefix=(), want_obs=False):
    """One execution under the recorded choice prefix then the default
    scheduler.  Returns dict(trace, why, viol, summary, steps)."""
    chooser = sim.ReplayChooser(prefix)
    s = sim.Sched(chooser=chooser, adversarial=scn.adversarial, max_steps=scn.max_steps, max_time=scn.max_time, fast_forward=scn.fast_forward)
    s.point_after_spawn = getattr(scn, "point_after_spawn", False)
    with sim.installed(s, watch=scn.watch):
        ctx = scn.build(s)
        why = s.run()
        if len(chooser.trace) < len(chooser.prefix):
            raise sim.ReplayDivergence(f"execution ended after {len(chooser.trace)} decisions, prefix has {len(chooser.prefix)}")
        viol = list(scn.check(s, ctx, why))
        summ = scn.summary(s, ctx, why)
        out = {"trace": chooser.trace, "why": why, "viol": viol, "summary": summ, "steps": s.steps, "vtime": round(s.now - s.t0, 6)}
        if want_obs:
            out["obs"] = list(s.obs)
            out["blocked"] = s.describe_blocked()
    return out


def _alternatives(trace, start, budget, kinds=None):
    """Prefixes that deviate once more, at decision index >= start."""
    choices = [c for _, c, _ in trace]
    out = []
    for i in range(start, len(trace)):
        n, c, info = trace[i]
        if n <= 1:
            continue
        for alt in range(1, n):
            if kinds is not None and not kinds(info, alt):
                continue
            out.append(tuple(choices[:i]) + (alt,))
    return out


def deviations(prefix) -> int:
    """Number of non-default choices in a recorded schedule prefix."""
    return sum(1 for c in prefix if c)


def _subtree(scn, prefix, depth_left, kinds, stats, viols, summaries, cap):
    """DFS below `prefix` (which is itself executed here)."""
    stack = [(prefix, depth_left)]
    while stack:
        if cap and stats["executions"] >= cap:
            stats["capped"] = True
            return
        pfx, left = stack.pop()
        r = execute(scn, pfx)
        stats["executions"] += 1
        stats["decisions"] += len(r["trace"])
        stats["steps"] += r["steps"]
        summaries[r["summary"]] += 1
        for key, what in r["viol"]:
            # keep, per key, a schedule with the fewest deviations (the explanation that is easiest to
            # follow, and the number callers may put into the key)
            if key not in viols or deviations(pfx) < deviations(viols[key][1]):
                viols[key] = (what, list(pfx))
        if left > 0:
            for alt in _alternatives(r["trace"], len(pfx), left, kinds):
                stack.append((alt, left - 1))


def _worker(scn, prefixes, depth_left, kinds, cap):
    stats = collections.Counter()
    viols = {}
    summaries = collections.Counter()
    for p in prefixes:
        _subtree(scn, p, depth_left, kinds, stats, viols, summaries, cap)
    return dict(stats), viols, dict(summaries)


def explore_deviations(scn: Scenario, D: int, kinds=None, seed=0, cap_per_worker=None, jobs=None):
    """Enumerate every schedule with at most D deviations from the default
    scheduler.  Returns dict(stats, viols{key:(what,prefix)}, summaries)."""
    t0 = _time.time()
    base = execute(scn, ())
    stats = collections.Counter(executions=1, decisions=len(base["trace"]), steps=base["steps"])
    viols = {}
    for key, what in base["viol"]:
        viols[key] = (what, [])
    summaries = collections.Counter({base["summary"]: 1})
    stats["default_decisions"] = len(base["trace"])
    stats["default_steps"] = base["steps"]
    if D >= 1:
        firsts = _alternatives(base["trace"], 0, D, kinds)
        stats["first_level"] = len(firsts)
        jobs = jobs or core.NPROC
        parts = [firsts[i::jobs] for i in range(jobs)]
        parts = [p for p in parts if p]
        res = core.pmap(_worker, [(scn, p, D - 1, kinds, cap_per_worker) for p in parts], jobs=jobs, seed=seed)
        for st, vi, su in res:
            for k, v in st.items():
                if k == "capped":
                    stats["capped"] = 1
                else:
                    stats[k] += v
            for k, v in vi.items():
                if k not in viols or deviations(v[1]) < deviations(viols[k][1]):
                    viols[k] = v
            for k, v in su.items():
                summaries[k] += v
    stats["wall_s"] = round(_time.time() - t0, 2)
    return {"stats": dict(stats), "viols": viols, "summaries": dict(summaries), "D": D}


def state_hash(obj) -> str:
    return hashlib.sha1(repr(obj).encode()).hexdigest()[:20]


def _worker_multi(scns, items, depth_left, kinds, cap):
    """items: list of (scenario index, prefix)."""
    out = {}
    for si, p in items:
        stats, viols, summaries = out.setdefault(si, (collections.Counter(), {}, collections.Counter()))
        _subtree(scns[si], p, depth_left, kinds, stats, viols, summaries, cap)
    return {si: (dict(a), b, dict(c)) for si, (a, b, c) in out.items()}


def explore_family(scns, D, kinds=None, seed=0, cap_per_item=None, jobs=None):
    """explore_deviations for many scenarios sharing one worker pool.
    Returns list of per-scenario result dicts (same shape)."""
    t0 = _time.time()
    results = []
    items = []
    for si, scn in enumerate(scns):
        base = execute(scn, ())
        stats = collections.Counter(executions=1, decisions=len(base["trace"]), steps=base["steps"])
        viols = {key: (what, []) for key, what in base["viol"]}
        stats["default_decisions"] = len(base["trace"])
        stats["default_steps"] = base["steps"]
        results.append({"stats": stats, "viols": viols, "summaries": collections.Counter({base["summary"]: 1}), "D": D})
        if D >= 1:
            firsts = _alternatives(base["trace"], 0, D, kinds)
            stats["first_level"] = len(firsts)
            items += [(si, f) for f in firsts]
    if items:
        jobs = jobs or core.NPROC
        nparts = jobs * 6
        # interleave so that every part holds a mix of scenarios / positions
        parts = [items[i::nparts] for i in range(nparts)]
        parts = [p for p in parts if p]
        res = core.pmap(_worker_multi, [(scns, p, D - 1, kinds, cap_per_item) for p in parts], jobs=jobs, seed=seed)
        for part in res:
            for si, (st, vi, su) in part.items():
                r = results[si]
                for k, v in st.items():
                    r["stats"][k] += v
                for k, v in vi.items():
                    if k not in r["viols"] or deviations(v[1]) < deviations(r["viols"][k][1]):
                        r["viols"][k] = v
                for k, v in su.items():
                    r["summaries"][k] += v
    wall = round(_time.time() - t0, 2)
    for r in results:
        r["stats"] = dict(r["stats"])
        r["stats"]["wall_s"] = wall
        r["summaries"] = dict(r["summaries"])
    return results
