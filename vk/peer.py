"""One real association against a scripted raw peer; breadth-first search over
event histories at quiescent states (layer A of DESIGN.md 2.2)."""
from __future__ import annotations

import collections
import struct

from vk import core, scen, sim
from vk.explore import Scenario

# ---------------------------------------------------------------------------
# PDU bytes used by the raw peer (built by hand, PS3.8 section 9.3)


def _item(t, body):
    return struct.pack(">BBH", t, 0, len(body)) + body


def _pdu(t, body):
    return struct.pack(">BBL", t, 0, len(body)) + body


def _ae(s):
    return s.encode().ljust(16, b" ")


APP_CTX = _item(0x10, b"1.2.840.10008.3.1.1.1")
USER_INFO = _item(0x50, _item(0x51, struct.pack(">L", 16382)) + _item(0x52, b"1.2.3.4.5"))


def assoc_rq(pv=1, abstract=scen.VERIFICATION.encode(), calling="PEER", called="ACC", cx_id=1):
    pc = _item(0x20, bytes([cx_id, 0, 0, 0]) + _item(0x30, abstract) + _item(0x40, scen.IVRLE.encode()))
    return _pdu(1, struct.pack(">HH", pv, 0) + _ae(called) + _ae(calling) + b"\x00" * 32 + APP_CTX + pc + USER_INFO)


def assoc_ac(cx_id=1, result=0):
    pc = _item(0x21, bytes([cx_id, 0, result, 0]) + _item(0x40, scen.IVRLE.encode()))
    return _pdu(2, struct.pack(">HH", 1, 0) + _ae("ACC") + _ae("REQ") + b"\x00" * 32 + APP_CTX + pc + USER_INFO)


def assoc_rj(result=1, source=1, reason=1):
    return _pdu(3, bytes([0, result, source, reason]))


RELEASE_RQ = _pdu(5, b"\x00" * 4)
RELEASE_RP = _pdu(6, b"\x00" * 4)


def abort(source=0, reason=0):
    return _pdu(7, bytes([0, 0, source, reason]))


def _elem(group, el, val):
    return struct.pack("<HHL", group, el, len(val)) + val


def command_set(field, msg_id=1, sop=scen.VERIFICATION, has_ds=False, status=None, rsp_to=None):
    uid = sop.encode()
    if len(uid) % 2:
        uid += b"\x00"
    body = _elem(0, 2, uid) + _elem(0, 0x100, struct.pack("<H", field))
    if rsp_to is None:
        body += _elem(0, 0x110, struct.pack("<H", msg_id))
    else:
        body += _elem(0, 0x120, struct.pack("<H", rsp_to))
    body += _elem(0, 0x800, struct.pack("<H", 0x0001 if has_ds else 0x0101))
    if status is not None:
        body += _elem(0, 0x900, struct.pack("<H", status))
    return _elem(0, 0, struct.pack("<L", len(body))) + body


def pdata(cx_id, payload, command=True, last=True):
    hdr = (1 if command else 0) | (2 if last else 0)
    pdv = bytes([cx_id, hdr]) + payload
    return _pdu(4, struct.pack(">L", len(pdv)) + pdv)


ECHO_RQ = pdata(1, command_set(0x0030, msg_id=7))
ECHO_RSP = pdata(1, command_set(0x8030, rsp_to=1, status=0))
BAD_DIMSE = pdata(1, b"\x01\x02\x03\x04\x05\x06\x07\x08")
INVALID_PDU = _pdu(1, b"\x00\x01")  # A-ASSOCIATE-RQ far too short to decode
UNKNOWN_PDU = _pdu(0x99, b"\x00" * 4)

MENU = {
    "rq": lambda: assoc_rq(),
    "rq-badpv": lambda: assoc_rq(pv=2),
    "ac": lambda: assoc_ac(),
    "rj": lambda: assoc_rj(),
    "echo-rq": lambda: ECHO_RQ,
    "echo-rsp": lambda: ECHO_RSP,
    "bad-dimse": lambda: BAD_DIMSE,
    "release-rq": lambda: RELEASE_RQ,
    "release-rp": lambda: RELEASE_RP,
    "abort": lambda: abort(0, 0),
    "p-abort": lambda: abort(2, 2),
    "invalid": lambda: INVALID_PDU,
    "unknown": lambda: UNKNOWN_PDU,
    "half": lambda: ECHO_RQ[: len(ECHO_RQ) // 2],
    "half-header": lambda: ECHO_RQ[:3],
}
PEER_ACTIONS = list(MENU) + ["close", "reset"]
# two PDUs written in one segment ("a+b"): the second is already readable when the reactor has
# consumed the first, so its event queue runs one event behind
BURST_SECOND = ("invalid", "rq", "abort", "release-rq")
# (a PDU the reader stalls on - unknown type, incomplete - stalls it whatever precedes or follows: not combined)
STALLERS = ("unknown", "half", "half-header")
BURSTS = [f"{a}+{b}" for a in MENU if a not in STALLERS for b in BURST_SECOND]


def menu_bytes(action):
    return b"".join(MENU[x]() for x in action.split("+"))


class StopScript(Exception):
    pass


class PeerScenario(Scenario):
    """role: the LOCAL side's role ('acceptor' or 'requestor').  events: list
    of ('peer', action) | ('tick',) | ('user', call) applied one per quiescent
    state.  After the events: `closure` = 'silent' lets time pass with the
    peer silent (connection kept open unless it closed it) until everything
    terminates or the horizon."""

    max_steps = 40000
    max_time = 40.0

    def __init__(self, role, events, user=("associate", "release"), closure="silent", monitors=(), stop_at_end=False):
        self.role = role
        self.events = list(events)
        self.user = tuple(user)
        self.closure = closure
        self.monitors = list(monitors)
        self.stop_at_end = stop_at_end
        self.name = f"peer[{role}|{'+'.join(user) if role == 'requestor' else 'serve'}]"

    def build(self, s):
        from pynetdicom import evt

        ctx = {"res": {}, "acc_assocs": [], "handler_calls": [], "peer_log": [], "user_log": [], "events_done": 0, "rr": None, "ra": None}
        rec = scen.Recorder(s, "loc")
        ctx["rec"] = rec
        peer = {"pending": None, "sock": None, "closed": False}
        ctx["peer"] = peer
        user = {"pending": None, "pos": 0}
        ctx["user"] = user

        def do_peer(action):
            sock = peer["sock"]
            if sock is None or peer["closed"]:
                return
            if action == "close":
                sock.close()
                peer["closed"] = True
            elif action == "reset":
                sock.reset()
                peer["closed"] = True
            else:
                try:
                    sock.send(menu_bytes(action))
                except OSError as e:
                    ctx["peer_log"].append(("send-failed", action, type(e).__name__))

        def peer_loop():
            while True:
                s.block("peer.wait", "peer", lambda: peer["pending"] is not None, None)
                a = peer["pending"]
                peer["pending"] = None
                if a == "__exit__":
                    return
                ctx["peer_log"].append(a)
                if isinstance(a, tuple):  # ("at", absolute virtual time, action)
                    s.block("peer.sleep", None, None, timeout=max(0.0, a[1] - s.now))
                    a = a[2]
                do_peer(a)

        if self.role == "acceptor":
            ae = scen.make_ae("ACC")
            ae.add_supported_context(scen.VERIFICATION)
            handlers = list(rec.handlers())

            def on_echo(event):
                ctx["handler_calls"].append("echo")
                return 0

            def on_est(event):
                ctx["acc_assocs"].append(event.assoc)

            handlers += [(evt.EVT_C_ECHO, on_echo), (evt.EVT_ESTABLISHED, on_est), (evt.EVT_REQUESTED, lambda e: ctx["res"].setdefault("assoc", e.assoc))]
            scen.start_server(s, ae, handlers, max_requests=1)

            def peer_main():
                so = sim.SimSocket()
                so.connect(("127.0.0.1", scen.PORT))
                peer["sock"] = so
                if self.events and self.events[0][0] == "early":
                    # the peer's first bytes are on the socket before the acceptor's threads run at all
                    ctx["peer_log"].append(("early", self.events[0][1]))
                    do_peer(self.events[0][1])
                peer_loop()

            s.spawn(peer_main, "peer")
        else:
            ae = scen.make_ae("REQ")
            ae.add_requested_context(scen.VERIFICATION)
            lst = sim.SimSocket()
            lst.bind(("127.0.0.1", scen.PORT))
            lst.listen(1)

            def peer_main():
                so, _ = lst.accept()
                peer["sock"] = so
                peer_loop()

            s.spawn(peer_main, "peer")

            def user_main():
                a = None
                for call in self.user:
                    s.block("user.wait", "user", lambda: user["pending"] is not None, None)
                    user["pending"] = None
                    ctx["user_log"].append(call)
                    try:
                        self._user_call(ae, rec, ctx, call)
                    except Exception as exc:  # documented API errors (e.g. RuntimeError when not established)
                        ctx["user_log"].append(("raised", call, type(exc).__name__))
                    user["pos"] += 1
                    continue
                    if call == "associate":
                        a = ae.associate("127.0.0.1", scen.PORT, evt_handlers=rec.handlers())
                        ctx["res"]["assoc"] = a
                        ctx["res"]["established"] = a.is_established
                    elif a is None:
                        continue
                    elif call == "echo":
                        st = a.send_c_echo()
                        ctx["res"]["echo"] = st.Status if "Status" in st else None
                    elif call == "release":
                        a.release()
                    elif call == "abort":
                        a.abort()
                    user["pos"] += 1

            s.spawn(user_main, "user")

        evs = collections.deque(self.events)
        if evs and evs[0][0] == "early":
            evs.popleft()  # already sent right after connect()
            ctx["events_done"] = ctx.get("events_done", 0) + 1

        def hook(sched):
            while evs and evs[0][0] == "tick" and not _has_deadline(sched):
                evs.popleft()  # nothing can time out: the tick is a no-op
                ctx["events_done"] += 1
            if evs:
                e = evs.popleft()
                ctx["events_done"] += 1
                if e[0] == "peer":
                    peer["pending"] = e[1]
                    return True
                if e[0] == "race":
                    # the peer acts at (next pending deadline + delta): before,
                    # within and after the reactor pass that sees the expiry
                    dls = _deadlines(sched)
                    j = e[3] if len(e) > 3 else 0
                    if j >= len(dls):
                        return False
                    peer["pending"] = ("at", dls[j] + RACE_DELTAS[e[2]], e[1])
                    return True
                if e[0] == "user":
                    if not _user_waiting(sched):
                        return False
                    user["pending"] = True
                    return True
                return False  # tick: let time advance to the next deadline
            if self.stop_at_end:
                ctx["canon"] = canon(sched, ctx)
                return "stop"
            # closure: let helper threads finish, the peer stays silent
            done = False
            if peer["pending"] is None and not ctx.get("peer_exit"):
                ctx["peer_exit"] = True
                peer["pending"] = "__exit__"
                done = True
            if self.role == "requestor" and user["pending"] is None and _user_waiting(sched):
                user["pending"] = True  # remaining user calls are issued (they must not hang either)
                done = True
            return done

        s.quiescent_hook = hook
        return ctx

    def _user_call(self, ae, rec, ctx, call):
        a = ctx["res"].get("assoc")
        if call == "associate":
            a = ae.associate("127.0.0.1", scen.PORT, evt_handlers=rec.handlers())
            ctx["res"]["assoc"] = a
            ctx["res"]["established"] = a.is_established
        elif a is None:
            return
        elif call == "echo":
            st = a.send_c_echo()
            ctx["res"]["echo"] = st.Status if "Status" in st else None
        elif call == "release":
            a.release()
        elif call == "abort":
            a.abort()

    def check(self, s, ctx, why):
        v = []
        for m in self.monitors:
            for key, what in m(self, s, ctx, why):
                v.append((key, what))
        return v

    def summary(self, s, ctx, why):
        a = ctx["res"].get("assoc")
        o = scen.assoc_outcome(a) if a is not None else None
        return (why, None if o is None else tuple(sorted(k for k, v in o.items() if v is True)), None if o is None else o["fsm"])


def canon(s, ctx):
    """Canonical quiescent state: what the future can depend on."""
    a = ctx["res"].get("assoc")
    parts = []
    for t in s.threads:
        parts.append((t.name, t.status, t.kind if t.status != sim.DONE else None, t.on if t.status != sim.DONE else None, t.deadline is not None and not t.is_poll))
    if a is not None:
        d = a.__dict__
        flags = tuple(d.get("_w_" + k) for k in ("is_established", "is_released", "is_aborted", "is_rejected", "_kill", "_sent_abort", "_is_paused"))
        dul = a.dul
        fsm = dul.state_machine.__dict__.get("_w_current_state")

        def q(qq):
            return tuple(type(x).__name__ if not isinstance(x, (str, tuple)) else (x if isinstance(x, str) else type(x[1]).__name__) for x in qq.queue)

        timers = []
        for tm in (dul.artim_timer, dul._idle_timer):
            timers.append((tm._start_time is not None, tm._end_time is not None, tm._timeout is not None))
        parts.append((flags, fsm, q(dul.event_queue), q(dul.to_provider_queue), q(dul.to_user_queue), q(dul._recv_pdu), q(a.dimse.msg_queue), tuple(timers), d.get("_reactor_checkpoint") and a._reactor_checkpoint._flag))
    for c in s.net.conns:
        parts.append((c.c.closed, c.s.closed, c.c.rx_eof, c.s.rx_eof, c.c.rx_reset, c.s.rx_reset, sum(map(len, c.c.rx)), sum(map(len, c.s.rx))))
    parts.append((ctx["user"]["pos"], ctx["peer"]["closed"], tuple(ctx["handler_calls"])))
    return tuple(parts)


# ---------------------------------------------------------------------------
# monitors


def mon_peer_provider_idle(scn, s, ctx, why):
    v = []
    if why != "terminated":
        return v
    a = ctx["res"].get("assoc")
    if a is None:
        return v
    o = scen.assoc_outcome(a)
    if o["fsm"] != "Sta1":
        v.append((f"fsm-{o['fsm']}", f"provider ended in {o['fsm']}, not idle"))
    local = "s" if scn.role == "acceptor" else "c"
    for c in s.net.conns:
        ep = c.s if local == "s" else c.c
        if not ep.closed:
            v.append(("socket-open", "local transport connection left open"))
    return v


def mon_peer_exceptions(scn, s, ctx, why):
    from vk import monitors as M

    return [(f"uncaught-{kind}-in-{th}", f"uncaught exception in thread {th}: {msg}") for th, kind, msg in M.thread_exceptions(s)]


def mon_peer_terminates(scn, s, ctx, why):
    if why == "terminated":
        return []
    bl = s.describe_blocked()
    sites = sorted({(b[0], b[2], (b[5] or ["?"])[0]) for b in bl})
    return [(f"not-terminated-{why}:" + "+".join(f"{x[0]}@{x[2].split(':')[1] if ':' in x[2] else x[2]}" for x in sites), f"ended '{why}' at virtual t={s.now - s.t0:.2f}s with live threads {sites}")]


# ---------------------------------------------------------------------------
# breadth-first search over event histories


def _expand(args):
    role, user, hist, monitors, races = args[:5]
    bursts = args[5] if len(args) > 5 else True
    from vk import explore

    # closure run: history then silence; all monitors
    scn = PeerScenario(role, hist, user=user, monitors=monitors)
    r = explore.execute(scn, ())
    viol = r["viol"]
    # state run: stop at the quiescent state after the history
    scn2 = PeerScenario(role, hist, user=user, stop_at_end=True)
    s = sim.Sched(max_steps=scn2.max_steps, max_time=scn2.max_time)
    with sim.installed(s):
        ctx = scn2.build(s)
        why = s.run()
        key = ctx.get("canon") if why == "script-end" else ("ended", why, scn2.summary(s, ctx, why))
        live = s.live_threads()
        has_deadline = _has_deadline(s)
        menu = []
        if why == "script-end":
            if not ctx["peer"]["closed"] and ctx["peer"]["sock"] is not None:
                menu += [("peer", a) for a in PEER_ACTIONS]
                if bursts:
                    menu += [("peer", a) for a in BURSTS]
            if has_deadline:
                menu.append(("tick",))
                if races and not ctx["peer"]["closed"] and ctx["peer"]["sock"] is not None:
                    nd = min(2, len(_deadlines(s)))
                    menu += [("race", a, k, j) for a in RACE_ACTIONS for k in range(len(RACE_DELTAS)) for j in range(nd)]
            if role == "requestor" and ctx["user"]["pos"] + len([1 for e in hist if e[0] == "user"]) - ctx["user"]["pos"] < len(user) and _user_waiting(s):
                menu.append(("user",))
            if bursts and role == "acceptor" and not hist:
                # alternatives to the empty history: the peer's first bytes are sent right after connect()
                menu += [("early", a) for a in [m for m in MENU if m not in STALLERS] + BURSTS]
        steps = s.steps + r["steps"]
    return hist, key, menu, viol, r["summary"], steps


RACE_DELTAS = (-0.0015, 0.0, 0.0015)
RACE_ACTIONS = ("rq", "ac", "echo-rq", "release-rq", "release-rp", "abort", "close")


def _deadlines(s):
    """Distinct pending instants at which something can time out, ascending."""
    live = s.live_threads()
    c = [t.deadline for t in live if t.deadline is not None and not t.is_poll and t.deadline > s.now]
    if any(t.is_poll for t in live):
        c += [d for d in s.timer_deadlines() if d > s.now]
    out = []
    for d in sorted(c):
        if not out or d - out[-1] > 1e-9:
            out.append(d)
    return out


def _has_deadline(s):
    live = s.live_threads()
    return any(t.deadline is not None and not t.is_poll for t in live) or (any(t.is_poll for t in live) and any(d > s.now for d in s.timer_deadlines()))


def _user_waiting(s):
    for t in s.threads:
        if t.name == "user" and t.status == sim.BLOCKED and t.kind == "user.wait":
            return True
    return False


def _expand_chunk(items):
    return [_expand(it) for it in items]


def bfs(role, user, monitors, max_depth, seed=0, log=None, max_states=None, races=True):
    seen = {}
    frontier = [()]
    viols = {}
    summaries = collections.Counter()
    stats = collections.Counter()
    depth = 0
    fix = False
    while frontier and depth <= max_depth:
        items = [(role, user, h, monitors, races) for h in frontier]
        n = max(1, min(len(items), core.NPROC * 4))
        parts = [items[i::n] for i in range(n)]
        res = core.pmap(_expand_chunk, [(p,) for p in parts if p], seed=seed)
        nxt = []
        flat = [x for part in res for x in part]
        flat.sort(key=lambda x: x[0])
        for hist, key, menu, viol, summ, steps in flat:
            stats["executions"] += 2
            stats["steps"] += steps
            summaries[summ] += 1
            last = next((e[1] if e[0] == "peer" else f"early-{e[1]}" if e[0] == "early" else (f"race-{e[1]}{e[2]}{'' if len(e) < 4 or not e[3] else 'b'}" if e[0] == "race" else e[0]) for e in reversed(hist) if e[0] != "tick"), "start")
            for k, what in viol:
                kk = f"{role}:{k}:after-{last}"
                if kk not in viols:
                    viols[kk] = (f"{role} vs raw peer, history {list(hist)}: {what}", list(hist))
            if viol:
                stats["violating_histories"] += 1
                continue  # the property is already violated on this history: minimal counterexamples only
            if key in seen:
                stats["revisits"] += 1
                continue
            seen[key] = hist
            stats["transitions"] += len(menu)
            if depth < max_depth:
                for e in menu:
                    nxt.append(hist + (e,))
            elif menu:
                stats["unexpanded_new_states"] += 1
        if log:
            log(f"bfs {role}/{'+'.join(user)} depth={depth} frontier={len(frontier)} states={len(seen)} next={len(nxt)} viol_keys={len(viols)}")
        frontier = nxt
        depth += 1
        if max_states and len(seen) >= max_states:
            break
    fix = not frontier and not stats.get("unexpanded_new_states")
    return {"states": len(seen), "stats": dict(stats), "viols": viols, "summaries": dict(summaries), "fixpoint": fix, "depth_completed": depth - 1}
