"""Reference status categorisation, transcribed from PS3.7 Annex C and the
service annexes of PS3.4 (ranges), not from pynetdicom/status.py.

PS3.7 Annex C general codes:
  Success 0000; Pending FF00, FF01; Cancel FE00;
  Warning 0001, 0107, 0116, Bxxx;
  Failure Axxx, Cxxx, 0105 0106 0110-0115 0117-0124 0210-0213
"""

SUCCESS, WARNING, FAILURE, CANCEL, PENDING, UNKNOWN = ("Success", "Warning", "Failure", "Cancel", "Pending", "Unknown")

_FAIL_01 = {0x0105, 0x0106, 0x0110, 0x0111, 0x0112, 0x0113, 0x0114, 0x0115, 0x0117, 0x0118, 0x0119, 0x0120, 0x0121, 0x0122, 0x0123, 0x0124}
_FAIL_02 = {0x0210, 0x0211, 0x0212, 0x0213}
_WARN = {0x0001, 0x0107, 0x0116}


def category(code: int) -> str:
    if code == 0x0000:
        return SUCCESS
    if code in (0xFF00, 0xFF01):
        return PENDING
    if code == 0xFE00:
        return CANCEL
    hi = code >> 12
    if hi in (0xA, 0xC):
        return FAILURE
    if hi == 0xB:
        return WARNING
    if code in _FAIL_01 or code in _FAIL_02:
        return FAILURE
    if code in _WARN:
        return WARNING
    return UNKNOWN


def is_final(code: int) -> bool:
    """A response status ends an operation unless it is Pending."""
    return category(code) != PENDING
