"""Reference presentation-context negotiation for the association acceptor.

Transcribed from PS3.8 7.1.1.13/14 and 9.3.3.2 (result values), PS3.7
D.3.3.4 (role selection) and the documented role-selection table
(docs/user/presentation_role_selection.rst) - not from
pynetdicom/presentation.py.

proposed : [(context_id, abstract, [transfer syntaxes in proposal order])]
supported: {abstract: ([transfer syntaxes in acceptor preference order], scu_role, scp_role)}
           scu_role / scp_role in {None, True, False}
roles    : {abstract: (scu, scp)} proposed SCP/SCU role selection items (booleans)

result   : ({context_id: (result, transfer syntax or None, acceptor_as_scu, acceptor_as_scp)},
            {abstract: (scu, scp)} role selection replies)
"""

ACCEPT, USER_REJECT, NO_REASON, ABSTRACT_NOT_SUPPORTED, TRANSFER_NOT_SUPPORTED = 0, 1, 2, 3, 4


def roles_outcome(rq, sup):
    """-> ('default'|'reject'|'roles', acceptor_as_scu, acceptor_as_scp, reply or None)"""
    if rq is None or sup[0] is None or sup[1] is None:
        return ("default", False, True, None)
    reply = (bool(sup[0] and rq[0]), bool(sup[1] and rq[1]))
    if reply == (False, False):
        return ("reject", False, False, None)
    if reply == (True, False):
        return ("roles", False, True, reply)  # requestor SCU, acceptor SCP (default)
    if reply == (False, True):
        return ("roles", True, False, reply)  # requestor SCP, acceptor SCU
    return ("roles", True, True, reply)


def negotiate(proposed, supported, roles):
    results, replies = {}, {}
    for cid, ab, tss in proposed:
        if ab not in supported:
            results[cid] = (ABSTRACT_NOT_SUPPORTED, None, False, False)
            continue
        pref, scu, scp = supported[ab]
        ts = next((t for t in pref if t in tss), None)
        if ts is None:
            results[cid] = (TRANSFER_NOT_SUPPORTED, None, False, False)
            continue
        kind, a_scu, a_scp, reply = roles_outcome(roles.get(ab), (scu, scp))
        if kind == "reject":
            results[cid] = (USER_REJECT, None, False, False)
            continue
        results[cid] = (ACCEPT, ts, a_scu, a_scp)
        if reply is not None:
            replies[ab] = reply
    return results, replies


def negotiate_unrestricted(proposed, supported, roles, is_storage_like):
    """Unrestricted storage: storage / private / unknown abstract syntaxes are
    accepted with the first proposed transfer syntax and the acceptor
    supporting both roles; everything else negotiates normally."""
    normal = [p for p in proposed if not is_storage_like(p[1])]
    results, replies = negotiate(normal, supported, roles)
    for cid, ab, tss in proposed:
        if not is_storage_like(ab):
            continue
        kind, a_scu, a_scp, reply = roles_outcome(roles.get(ab), (True, True))
        if kind == "reject":
            results[cid] = (USER_REJECT, None, False, False)
            continue
        # kind == "default": nothing proposed, so PS3.7 D.3.3.4 default roles
        # apply (requestor SCU, acceptor SCP) - the acceptor gains no SCU role
        results[cid] = (ACCEPT, tss[0], a_scu, a_scp)
        if reply is not None:
            replies[ab] = reply
    return results, replies
