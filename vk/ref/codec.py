"""Reference encoder/decoder for the seven DICOM upper-layer PDUs, their items
and sub-items, transcribed from PS3.8 Tables 9-11..9-26 and PS3.7 Annex D.3.3
(see DESIGN.md appendix A.1/A.2) - not from pynetdicom.

Values are plain dicts/tuples:

 {"type": "RQ"|"AC", "pv": int, "called": str, "calling": str,
  "app": uid, "pcs": [...], "user": [sub-items]}
     RQ pcs: {"id", "abstract", "ts": [uid, ...]}
     AC pcs: {"id", "result", "ts": uid}
 {"type": "RJ", "result", "source", "reason"}
 {"type": "PDATA", "pdvs": [(context id, bytes incl. control header)]}
 {"type": "RELRQ"} {"type": "RELRP"}
 {"type": "ABORT", "source", "reason"}
 sub-items: ("maxlen", n) ("implclass", uid) ("implver", text)
            ("async", invoked, performed) ("role", uid, scu, scp)
            ("sopext", uid, bytes) ("common", uid, service uid, [uids])
            ("userid_rq", type, response_requested, primary, secondary)
            ("userid_ac", bytes)
Every length field is computed from what follows it; decode() verifies every
length field and raises Malformed otherwise.
"""
from __future__ import annotations

import struct


class Malformed(Exception):
    pass


def _b(s):
    return s if isinstance(s, bytes) else s.encode("ascii")


def _item(t, body, reserved=0):
    return struct.pack(">BBH", t, reserved, len(body)) + body


def _pdu(t, body):
    return struct.pack(">BBL", t, 0, len(body)) + body


def _ae(s):
    b = _b(s)
    if len(b) > 16:
        raise ValueError("AE title longer than 16")
    return b.ljust(16, b" ")


def enc_subitem(si):
    k = si[0]
    if k == "maxlen":
        return _item(0x51, struct.pack(">L", si[1]))
    if k == "implclass":
        return _item(0x52, _b(si[1]))
    if k == "implver":
        return _item(0x55, _b(si[1]))
    if k == "async":
        return _item(0x53, struct.pack(">HH", si[1], si[2]))
    if k == "role":
        u = _b(si[1])
        return _item(0x54, struct.pack(">H", len(u)) + u + bytes([1 if si[2] else 0, 1 if si[3] else 0]))
    if k == "sopext":
        u = _b(si[1])
        return _item(0x56, struct.pack(">H", len(u)) + u + si[2])
    if k == "common":
        u, sv = _b(si[1]), _b(si[2])
        rel = b"".join(struct.pack(">H", len(_b(r))) + _b(r) for r in si[3])
        return _item(0x57, struct.pack(">H", len(u)) + u + struct.pack(">H", len(sv)) + sv + struct.pack(">H", len(rel)) + rel)
    if k == "userid_rq":
        p, s2 = si[3], si[4]
        return _item(0x58, bytes([si[1], 1 if si[2] else 0]) + struct.pack(">H", len(p)) + p + struct.pack(">H", len(s2)) + s2)
    if k == "userid_ac":
        return _item(0x59, struct.pack(">H", len(si[1])) + si[1])
    raise KeyError(k)


def encode(v):
    t = v["type"]
    if t in ("RQ", "AC"):
        body = struct.pack(">HH", v["pv"], 0) + _ae(v["called"]) + _ae(v["calling"]) + b"\x00" * 32
        body += _item(0x10, _b(v["app"]))
        for pc in v["pcs"]:
            if t == "RQ":
                body += _item(0x20, bytes([pc["id"], 0, 0, 0]) + _item(0x30, _b(pc["abstract"])) + b"".join(_item(0x40, _b(x)) for x in pc["ts"]))
            else:
                body += _item(0x21, bytes([pc["id"], 0, pc["result"], 0]) + _item(0x40, _b(pc["ts"])))
        body += _item(0x50, b"".join(enc_subitem(s) for s in v["user"]))
        return _pdu(1 if t == "RQ" else 2, body)
    if t == "RJ":
        return _pdu(3, bytes([0, v["result"], v["source"], v["reason"]]))
    if t == "PDATA":
        return _pdu(4, b"".join(struct.pack(">L", 1 + len(d)) + bytes([cx]) + d for cx, d in v["pdvs"]))
    if t == "RELRQ":
        return _pdu(5, b"\x00" * 4)
    if t == "RELRP":
        return _pdu(6, b"\x00" * 4)
    if t == "ABORT":
        return _pdu(7, bytes([0, 0, v["source"], v["reason"]]))
    raise KeyError(t)


# ---------------------------------------------------------------------------


def _items(data):
    out = []
    i = 0
    while i < len(data):
        if i + 4 > len(data):
            raise Malformed("truncated item header")
        t, _, ln = struct.unpack(">BBH", data[i : i + 4])
        if i + 4 + ln > len(data):
            raise Malformed(f"item 0x{t:02X} length {ln} runs past its container")
        out.append((t, data[i + 4 : i + 4 + ln]))
        i += 4 + ln
    return out


def _txt(b):
    return b.decode("ascii")


def dec_subitem(t, b):
    if t == 0x51:
        if len(b) != 4:
            raise Malformed("maximum length item must be 4 bytes")
        return ("maxlen", struct.unpack(">L", b)[0])
    if t == 0x52:
        return ("implclass", _txt(b))
    if t == 0x55:
        return ("implver", _txt(b))
    if t == 0x53:
        if len(b) != 4:
            raise Malformed("async window item must be 4 bytes")
        return ("async",) + struct.unpack(">HH", b)
    if t == 0x54:
        (n,) = struct.unpack(">H", b[:2])
        if len(b) != 2 + n + 2:
            raise Malformed("role selection lengths inconsistent")
        return ("role", _txt(b[2 : 2 + n]), bool(b[2 + n]), bool(b[3 + n]))
    if t == 0x56:
        (n,) = struct.unpack(">H", b[:2])
        if 2 + n > len(b):
            raise Malformed("sop ext lengths inconsistent")
        return ("sopext", _txt(b[2 : 2 + n]), bytes(b[2 + n :]))
    if t == 0x57:
        (n,) = struct.unpack(">H", b[:2])
        u = b[2 : 2 + n]
        (m,) = struct.unpack(">H", b[2 + n : 4 + n])
        sv = b[4 + n : 4 + n + m]
        (r,) = struct.unpack(">H", b[4 + n + m : 6 + n + m])
        rel = b[6 + n + m : 6 + n + m + r]
        if 6 + n + m + r > len(b):
            raise Malformed("common ext lengths inconsistent")
        uids = []
        i = 0
        while i < len(rel):
            (k,) = struct.unpack(">H", rel[i : i + 2])
            if i + 2 + k > len(rel):
                raise Malformed("related general sop class list inconsistent")
            uids.append(_txt(rel[i + 2 : i + 2 + k]))
            i += 2 + k
        return ("common", _txt(u), _txt(sv), uids)
    if t == 0x58:
        ty, rr = b[0], b[1]
        (n,) = struct.unpack(">H", b[2:4])
        p = b[4 : 4 + n]
        (m,) = struct.unpack(">H", b[4 + n : 6 + n])
        s2 = b[6 + n : 6 + n + m]
        if 6 + n + m != len(b):
            raise Malformed("user identity lengths inconsistent")
        return ("userid_rq", ty, bool(rr), bytes(p), bytes(s2))
    if t == 0x59:
        (n,) = struct.unpack(">H", b[:2])
        if 2 + n != len(b):
            raise Malformed("user identity response length inconsistent")
        return ("userid_ac", bytes(b[2:]))
    return ("unknown", t, bytes(b))


def decode(data):
    if len(data) < 6:
        raise Malformed("shorter than a PDU header")
    t, _, ln = struct.unpack(">BBL", data[:6])
    if len(data) != 6 + ln:
        raise Malformed(f"PDU length field {ln} but {len(data) - 6} bytes follow")
    b = data[6:]
    if t in (1, 2):
        if len(b) < 68:
            raise Malformed("fixed part truncated")
        pv, _ = struct.unpack(">HH", b[:4])
        v = {"type": "RQ" if t == 1 else "AC", "pv": pv, "called": _txt(b[4:20]).strip(" "), "calling": _txt(b[20:36]).strip(" "), "app": None, "pcs": [], "user": None}
        for it, body in _items(b[68:]):
            if it == 0x10:
                v["app"] = _txt(body)
            elif it == 0x20 and t == 1:
                pc = {"id": body[0], "abstract": None, "ts": []}
                for st, sb in _items(body[4:]):
                    if st == 0x30:
                        pc["abstract"] = _txt(sb)
                    elif st == 0x40:
                        pc["ts"].append(_txt(sb))
                    else:
                        raise Malformed(f"unexpected sub-item 0x{st:02X} in presentation context")
                v["pcs"].append(pc)
            elif it == 0x21 and t == 2:
                pc = {"id": body[0], "result": body[2], "ts": None}
                for st, sb in _items(body[4:]):
                    if st == 0x40:
                        pc["ts"] = _txt(sb)
                    else:
                        raise Malformed(f"unexpected sub-item 0x{st:02X} in presentation context result")
                v["pcs"].append(pc)
            elif it == 0x50:
                v["user"] = [dec_subitem(st, sb) for st, sb in _items(body)]
            else:
                raise Malformed(f"unexpected item 0x{it:02X}")
        return v
    if t == 3:
        if ln != 4:
            raise Malformed("A-ASSOCIATE-RJ length must be 4")
        return {"type": "RJ", "result": b[1], "source": b[2], "reason": b[3]}
    if t == 4:
        pdvs = []
        i = 0
        while i < len(b):
            if i + 4 > len(b):
                raise Malformed("truncated PDV item length")
            (n,) = struct.unpack(">L", b[i : i + 4])
            if n < 2 or i + 4 + n > len(b):
                raise Malformed("PDV item length inconsistent")
            pdvs.append((b[i + 4], bytes(b[i + 5 : i + 4 + n])))
            i += 4 + n
        return {"type": "PDATA", "pdvs": pdvs}
    if t in (5, 6):
        if ln != 4:
            raise Malformed("release PDU length must be 4")
        return {"type": "RELRQ" if t == 5 else "RELRP"}
    if t == 7:
        if ln != 4:
            raise Malformed("A-ABORT length must be 4")
        return {"type": "ABORT", "source": b[2], "reason": b[3]}
    raise Malformed(f"unknown PDU type 0x{t:02X}")


def length_fields(data):
    """Offsets (start, size) of every length field of a valid PDU - used by the
    C02 mutation enumerator."""
    out = [(2, 4)]
    t = data[0]
    b0 = 6
    if t in (1, 2):
        def walk(off, end, depth):
            i = off
            while i + 4 <= end:
                it, _, ln = struct.unpack(">BBH", data[i : i + 4])
                out.append((i + 2, 2))
                if it in (0x20, 0x21):
                    walk(i + 8, i + 4 + ln, depth + 1)
                elif it == 0x50:
                    walk(i + 4, i + 4 + ln, depth + 1)
                i += 4 + ln

        walk(b0 + 68, len(data), 0)
    elif t == 4:
        i = b0
        while i + 4 <= len(data):
            (n,) = struct.unpack(">L", data[i : i + 4])
            out.append((i, 4))
            i += 4 + n
    return out


def item_type_offsets(data):
    out = []
    if data[0] in (1, 2):
        def walk(off, end):
            i = off
            while i + 4 <= end:
                it, _, ln = struct.unpack(">BBH", data[i : i + 4])
                out.append(i)
                if it in (0x20, 0x21):
                    walk(i + 8, i + 4 + ln)
                elif it == 0x50:
                    walk(i + 4, i + 4 + ln)
                i += 4 + ln

        walk(6 + 68, len(data))
    return out
