"""DIMSE message table transcribed from PS3.7 sections 9.3 (DIMSE-C), 10.3
(DIMSE-N) and Annex E.1 (command dictionary): command field value, the
parameters each message carries in its command set, its data-set parameter.

name: (primitive class, is_response, command field, [command-set parameters], data-set parameter or None)
Parameters are named by their PS3.7 keyword.  MessageID /
MessageIDBeingRespondedTo are implied by the direction and not listed.
"""

STATUS_C = ["Status", "OffendingElement", "ErrorComment"]
SUBOPS = ["NumberOfRemainingSuboperations", "NumberOfCompletedSuboperations", "NumberOfFailedSuboperations", "NumberOfWarningSuboperations"]
STATUS_N = ["Status", "ErrorComment", "ErrorID"]

MESSAGES = {
    "C-STORE-RQ": ("C_STORE", False, 0x0001, ["AffectedSOPClassUID", "Priority", "AffectedSOPInstanceUID", "MoveOriginatorApplicationEntityTitle", "MoveOriginatorMessageID"], "DataSet"),
    "C-STORE-RSP": ("C_STORE", True, 0x8001, ["AffectedSOPClassUID", "AffectedSOPInstanceUID"] + STATUS_C, None),
    "C-FIND-RQ": ("C_FIND", False, 0x0020, ["AffectedSOPClassUID", "Priority"], "Identifier"),
    "C-FIND-RSP": ("C_FIND", True, 0x8020, ["AffectedSOPClassUID"] + STATUS_C, "Identifier"),
    "C-GET-RQ": ("C_GET", False, 0x0010, ["AffectedSOPClassUID", "Priority"], "Identifier"),
    "C-GET-RSP": ("C_GET", True, 0x8010, ["AffectedSOPClassUID"] + STATUS_C + SUBOPS, "Identifier"),
    "C-MOVE-RQ": ("C_MOVE", False, 0x0021, ["AffectedSOPClassUID", "Priority", "MoveDestination"], "Identifier"),
    "C-MOVE-RSP": ("C_MOVE", True, 0x8021, ["AffectedSOPClassUID"] + STATUS_C + SUBOPS, "Identifier"),
    "C-ECHO-RQ": ("C_ECHO", False, 0x0030, ["AffectedSOPClassUID"], None),
    "C-ECHO-RSP": ("C_ECHO", True, 0x8030, ["AffectedSOPClassUID", "Status", "ErrorComment"], None),
    "C-CANCEL-RQ": ("C_CANCEL", True, 0x0FFF, [], None),  # identified by MessageIDBeingRespondedTo
    "N-EVENT-REPORT-RQ": ("N_EVENT_REPORT", False, 0x0100, ["AffectedSOPClassUID", "AffectedSOPInstanceUID", "EventTypeID"], "EventInformation"),
    "N-EVENT-REPORT-RSP": ("N_EVENT_REPORT", True, 0x8100, ["AffectedSOPClassUID", "AffectedSOPInstanceUID", "EventTypeID"] + STATUS_N, "EventReply"),
    "N-GET-RQ": ("N_GET", False, 0x0110, ["RequestedSOPClassUID", "RequestedSOPInstanceUID", "AttributeIdentifierList"], None),
    "N-GET-RSP": ("N_GET", True, 0x8110, ["AffectedSOPClassUID", "AffectedSOPInstanceUID"] + STATUS_N + ["AttributeIdentifierList"], "AttributeList"),
    "N-SET-RQ": ("N_SET", False, 0x0120, ["RequestedSOPClassUID", "RequestedSOPInstanceUID"], "ModificationList"),
    "N-SET-RSP": ("N_SET", True, 0x8120, ["AffectedSOPClassUID", "AffectedSOPInstanceUID"] + STATUS_N + ["AttributeIdentifierList"], "AttributeList"),
    "N-ACTION-RQ": ("N_ACTION", False, 0x0130, ["RequestedSOPClassUID", "RequestedSOPInstanceUID", "ActionTypeID"], "ActionInformation"),
    "N-ACTION-RSP": ("N_ACTION", True, 0x8130, ["AffectedSOPClassUID", "AffectedSOPInstanceUID", "ActionTypeID"] + STATUS_N, "ActionReply"),
    "N-CREATE-RQ": ("N_CREATE", False, 0x0140, ["AffectedSOPClassUID", "AffectedSOPInstanceUID"], "AttributeList"),
    "N-CREATE-RSP": ("N_CREATE", True, 0x8140, ["AffectedSOPClassUID", "AffectedSOPInstanceUID"] + STATUS_N, "AttributeList"),
    "N-DELETE-RQ": ("N_DELETE", False, 0x0150, ["RequestedSOPClassUID", "RequestedSOPInstanceUID"], None),
    "N-DELETE-RSP": ("N_DELETE", True, 0x8150, ["AffectedSOPClassUID", "AffectedSOPInstanceUID"] + STATUS_N, None),
}

UID64 = "1.2.840.10008." + "1234567890." * 4 + "123456"  # 64 characters
assert len(UID64) == 64

VALUES = {
    "AffectedSOPClassUID": ["1.2.840.10008.1.1", UID64],
    "RequestedSOPClassUID": ["1.2.840.10008.3.1.2.3.3", UID64],
    "AffectedSOPInstanceUID": ["1.2.3", UID64],
    "RequestedSOPInstanceUID": ["1.2.3.4", UID64],
    "Priority": [2, 0, 1],
    "MoveOriginatorApplicationEntityTitle": ["A", "ORIGINATOR_16CHR"],
    "MoveOriginatorMessageID": [1, 0, 65535],
    "MoveDestination": ["DEST", "A", "DESTINATION_16CH"],
    "Status": [0x0000, 0xFF00, 0xC000, 0xFFFF],
    "OffendingElement": [[(0x0010, 0x0010)], [(0x0010, 0x0010), (0x0008, 0x0018), (0x7FE0, 0x0010)]],
    "ErrorComment": ["error", "x" * 64],
    "ErrorID": [1, 0, 65535],
    "NumberOfRemainingSuboperations": [1, 0, 65535],
    "NumberOfCompletedSuboperations": [2, 0, 65535],
    "NumberOfFailedSuboperations": [3, 0, 65535],
    "NumberOfWarningSuboperations": [4, 0, 65535],
    "EventTypeID": [1, 0, 65535],
    "ActionTypeID": [1, 0, 65535],
    "AttributeIdentifierList": [[(0x0010, 0x0010)], [(0x0010, 0x0010), (0x0008, 0x0018)], [(0x0010, 0x0010), (0x0008, 0x0018), (0x7FE0, 0x0010)]],
}
MESSAGE_IDS = [1, 0, 65535]
DATASETS = [None, b"\x08\x00\x18\x00\x06\x00\x00\x001.2.3\x00"]
