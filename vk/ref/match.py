"""Reference attribute matching and hierarchical query semantics, transcribed
from PS3.4 C.2.2.2 (matching types) and C.4.1 (hierarchical search, unique
keys) - not from pynetdicom/apps/qrscp/db.py.

An instance is a dict keyword -> str (or int rendered as str).
"""
import re

LEVELS = {
    "patient": [("PATIENT", "PatientID", ["PatientName"]), ("STUDY", "StudyInstanceUID", ["StudyDate", "StudyTime", "AccessionNumber", "StudyID"]), ("SERIES", "SeriesInstanceUID", ["Modality", "SeriesNumber"]), ("IMAGE", "SOPInstanceUID", ["InstanceNumber"])],
    "study": [("STUDY", "StudyInstanceUID", ["StudyDate", "StudyTime", "AccessionNumber", "StudyID", "PatientID", "PatientName"]), ("SERIES", "SeriesInstanceUID", ["Modality", "SeriesNumber"]), ("IMAGE", "SOPInstanceUID", ["InstanceNumber"])],
}
VR = {"PatientID": "LO", "PatientName": "PN", "StudyInstanceUID": "UI", "StudyDate": "DA", "StudyTime": "TM", "AccessionNumber": "SH", "StudyID": "SH", "SeriesInstanceUID": "UI", "Modality": "CS", "SeriesNumber": "IS", "SOPInstanceUID": "UI", "InstanceNumber": "IS"}


def wildcard(pattern, value, case_insensitive=False):
    rx = "".join(".*" if ch == "*" else ("." if ch == "?" else re.escape(ch)) for ch in pattern)
    return re.fullmatch(rx, value, re.S | (re.I if case_insensitive else 0)) is not None


def attr_match(kw, q, value):
    """-> True / False / None (None: either answer is acceptable)"""
    vr = VR[kw]
    if q is None or q == "" or q == []:
        return True  # universal matching
    if value is None:
        return False
    value = str(value)
    if vr == "UI":
        qs = q if isinstance(q, (list, tuple)) else [q]
        return value in [str(x) for x in qs]
    q = str(q)
    if vr in ("DA", "TM") and "-" in q:
        lo, hi = q.split("-", 1)
        return (not lo or value >= lo) and (not hi or value <= hi)
    if vr in ("LO", "PN", "SH", "CS") and ("*" in q or "?" in q):
        if vr == "PN":
            a, b = wildcard(q, value), wildcard(q, value, True)
            return a if a == b else None  # PN matching may be case-insensitive
        return wildcard(q, value)
    if vr == "PN" and q.lower() == value.lower() and q != value:
        return None
    return q == value


def validate(root, identifier):
    """identifier: dict incl. 'QueryRetrieveLevel'.  -> None if valid else reason"""
    lv = LEVELS[root]
    names = [l[0] for l in lv]
    q = identifier.get("QueryRetrieveLevel")
    if q not in names:
        return "level"
    keys = [k for k in identifier if k != "QueryRetrieveLevel"]
    if not keys:
        return "no-keys"
    idx = names.index(q)
    for lname, uniq, others in lv[idx + 1 :]:
        if any(k in identifier for k in [uniq] + others):
            return "keys-below-level"
    for lname, uniq, others in lv[:idx]:
        if uniq not in identifier:
            return "missing-unique-key"
    return None


def entity_key(root, level, inst):
    lv = LEVELS[root]
    names = [l[0] for l in lv]
    idx = names.index(level)
    return tuple(inst.get(l[1]) for l in lv[: idx + 1])


def select(root, identifier, instances, unique_only=False):
    """-> (set of matching entity keys at the query level, set of entity keys
    whose membership is unconstrained)"""
    lv = LEVELS[root]
    names = [l[0] for l in lv]
    q = identifier["QueryRetrieveLevel"]
    idx = names.index(q)
    sure, maybe = set(), set()
    for inst in instances:
        verdict = True
        for lname, uniq, others in lv[: idx + 1]:
            for kw in [uniq] + ([] if unique_only else others):
                if kw in identifier:
                    m = attr_match(kw, identifier[kw], inst.get(kw))
                    if m is False:
                        verdict = False
                    elif m is None and verdict is True:
                        verdict = None
        k = entity_key(root, q, inst)
        if verdict is True:
            sure.add(k)
        elif verdict is None:
            maybe.add(k)
    return sure, maybe - sure
