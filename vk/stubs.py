"""Sequential drivers: a *real* Association / service class with the DIMSE
provider replaced by a recording / scripted double.  No threads are started.
"""
from __future__ import annotations

import copy
import logging
from io import BytesIO

from pynetdicom import AE, _config, evt
from pynetdicom.association import Association
from pynetdicom.dimse import DIMSEServiceProvider
from pynetdicom.presentation import PresentationContext, build_context

logging.getLogger("pynetdicom").handlers = [logging.NullHandler()]
logging.getLogger("pynetdicom").propagate = False
logging.getLogger("pynetdicom").setLevel(logging.CRITICAL + 10)
_config.LOG_HANDLER_LEVEL = "none"


def snapshot(primitive) -> dict:
    """JSON-able copy of every public parameter of a DIMSE primitive as it is
    at the moment of sending (the SCP code re-uses one response object)."""
    d = {"_type": type(primitive).__name__}
    for k in dir(primitive):
        if k.startswith("_") or k in ("is_valid_request", "is_valid_response", "msg_type", "STATUS_OPTIONAL_KEYWORDS", "REQUEST_KEYWORDS", "RESPONSE_KEYWORDS"):
            continue
        try:
            v = getattr(primitive, k)
        except Exception:
            continue
        if callable(v):
            continue
        if isinstance(v, BytesIO):
            v = ("bytes", v.getvalue())
        elif hasattr(v, "__fspath__"):
            v = ("path", str(v))
        elif isinstance(v, list):
            v = [str(x) for x in v]
        elif v is not None and not isinstance(v, (int, str, bytes, float)):
            v = repr(v)
        d[k] = v
    return d


class RecordingDIMSE(DIMSEServiceProvider):
    """send_msg records; get_msg pops from a script."""

    def __init__(self, assoc):
        super().__init__(assoc)
        self.sent: list[tuple[int, dict]] = []
        self.sent_raw: list = []
        self.script: list = []
        self.on_send = None
        self.get_calls = 0

    def send_msg(self, primitive, context_id):
        # run the real conversion + fragmentation so that a primitive the
        # real provider could not put on the wire fails here the same way
        from pynetdicom.dimse import _RQ_TO_MESSAGE, _RSP_TO_MESSAGE

        tbl = _RQ_TO_MESSAGE if primitive.MessageIDBeingRespondedTo is None else _RSP_TO_MESSAGE
        msg = tbl[primitive.__class__]()
        msg.primitive_to_message(primitive)
        for _ in msg.encode_msg(context_id, 16382):
            pass
        self.sent.append((context_id, snapshot(primitive)))
        self.sent_raw.append((context_id, copy.copy(primitive)))
        if self.on_send:
            self.on_send(primitive, context_id)

    def get_msg(self, block=False):
        self.get_calls += 1
        if not self.script:
            return None, None
        item = self.script.pop(0)
        if callable(item):
            item = item()
        return item

    def peek_msg(self):
        if not self.script:
            return None, None
        return self.script[0]


def make_ae(**kw) -> AE:
    ae = AE()
    ae.acse_timeout = kw.get("acse_timeout", 5)
    ae.dimse_timeout = kw.get("dimse_timeout", 5)
    ae.network_timeout = kw.get("network_timeout", 5)
    return ae


def make_assoc(mode="acceptor", contexts=(), ae=None, established=True, max_pdu=16382):
    """Real, unstarted Association with a RecordingDIMSE.

    contexts: iterable of (cx_id, abstract_syntax, transfer_syntax, as_scu, as_scp)
    """
    ae = ae or make_ae()
    assoc = Association(ae, mode)
    assoc.dimse = RecordingDIMSE(assoc)
    assoc.is_established = established
    assoc.requestor.maximum_length = max_pdu
    assoc.acceptor.maximum_length = max_pdu
    for cx_id, ab, ts, as_scu, as_scp in contexts:
        cx = build_context(ab, ts)
        cx.context_id = cx_id
        cx.result = 0
        cx._as_scu = as_scu
        cx._as_scp = as_scp
        assoc._accepted_cx[cx_id] = cx
    return assoc


def events_of(assoc) -> list:
    return []
