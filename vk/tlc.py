"""Run TLC on models/PS38.tla and parse the dumped labelled state graph."""
from __future__ import annotations

import os
import re
import shutil
import subprocess
import tempfile

from vk.core import VERIF

MODELS = os.path.join(VERIF, "models")


def run_tlc(cfg: str, dump: bool):
    """Returns (stdout, dot_text | None, stats dict)."""
    tmp = tempfile.mkdtemp(prefix="vk-tlc-")
    try:
        cmd = ["tlc", "-workers", "1", "-noGenerateSpecTE", "-metadir", os.path.join(tmp, "meta"), "-deadlock", "-config", cfg]
        if dump:
            cmd += ["-dump", "dot,actionlabels", os.path.join(tmp, "graph")]
        cmd += ["PS38.tla"]
        p = subprocess.run(cmd, cwd=MODELS, capture_output=True, text=True, timeout=600)
        out = p.stdout + p.stderr
        dot = None
        if dump and os.path.exists(os.path.join(tmp, "graph.dot")):
            with open(os.path.join(tmp, "graph.dot")) as f:
                dot = f.read()
        stats = {}
        m = re.search(r"(\d+) states generated, (\d+) distinct states found", out)
        if m:
            stats = {"generated": int(m.group(1)), "distinct": int(m.group(2))}
        stats["ok"] = "Model checking completed. No error has been found." in out
        stats["rc"] = p.returncode
        return out, dot, stats
    finally:
        shutil.rmtree(tmp, ignore_errors=True)


_NODE = re.compile(r'^(-?\d+) \[label="(.*?)"(?:,style = filled|,tooltip=".*")?\];?$')
_EDGE = re.compile(r'^(-?\d+) -> (-?\d+) \[label="Fire\((\d+)\)"')


def _parse_label(lbl: str) -> dict:
    """'/\\ a = 1\n/\\ fx = [ x |-> "y",\n  z |-> "w" ]' (dot-escaped) -> dict"""
    lbl = lbl.replace('\\"', '"').replace("\\\\", "\\")
    d = {}
    for part in lbl.split("\\n/\\ "):
        part = part.replace("\\n", " ").strip()
        if part.startswith("/\\ "):
            part = part[3:]
        k, _, v = part.partition(" = ")
        k, v = k.strip(), v.strip()
        if v.startswith("["):
            rec = {}
            for kv in v.strip("[] ").split(","):
                a, _, b = kv.partition("|->")
                rec[a.strip()] = b.strip().strip('"')
            d[k] = rec
        elif v in ("TRUE", "FALSE"):
            d[k] = v == "TRUE"
        elif v.startswith('"'):
            d[k] = v.strip('"')
        else:
            d[k] = int(v)
    return d


def parse_dot(dot: str):
    nodes, edges = {}, set()
    for line in dot.splitlines():
        line = line.strip()
        m = _EDGE.match(line)
        if m:
            edges.add((m.group(1), m.group(2), int(m.group(3))))
            continue
        m = _NODE.match(line)
        if m:
            nodes[m.group(1)] = _parse_label(m.group(2))
    for a, b, _ in edges:
        if a not in nodes or b not in nodes:
            raise RuntimeError("dot parse: edge endpoint without node")
    return nodes, edges
