"""bin/check entry point:  check <Cnn> [--tier quick|thorough] [--replay file]"""
from __future__ import annotations

import argparse
import importlib
import json
import os
import sys
import time


def main(argv=None) -> int:
    ap = argparse.ArgumentParser(prog="check")
    ap.add_argument("prop")
    ap.add_argument("--tier", default=os.environ.get("VERIF_TIER", "quick"), choices=["quick", "thorough"])
    ap.add_argument("--seed", type=int, default=int(os.environ.get("VERIF_SEED", "0") or 0))
    ap.add_argument("--replay", default=None)
    a = ap.parse_args(argv)

    os.environ.setdefault("PYTHONHASHSEED", "0")
    from vk import core

    t0 = time.time()
    repo = core.install_repo_on_path()
    prop = a.prop.upper()
    ctx = core.Ctx(prop=prop, tier=a.tier, seed=a.seed, repo=repo, replay=a.replay)
    mod = importlib.import_module(f"vk.checks.{prop.lower()}")
    if a.replay:
        with open(a.replay) as f:
            data = json.load(f)
        if not hasattr(mod, "replay"):
            print(f"{prop}: no replay entry point")
            return 2
        return int(mod.replay(ctx, data.get("replay")) or 0)
    res = mod.run(ctx)
    return core.finish(ctx, res, t0)


if __name__ == "__main__":
    sys.exit(main())
