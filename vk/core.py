"""Core of the verification kit: check context, results, evidence, findings.

A check module exposes ``run(ctx) -> Result``.  ``bin/check`` (vk.main)
imports it *after* the repository under test was put first on ``sys.path``.
"""
from __future__ import annotations

import hashlib
import json
import multiprocessing as mp
import os
import sys
import time
import traceback
from dataclasses import dataclass, field
from typing import Any, Callable, Iterable, Sequence

VERIF = os.path.dirname(os.path.dirname(os.path.abspath(__file__)))
EVIDENCE_DIR = os.environ.get("VERIF_EVIDENCE_DIR") or os.path.join(VERIF, "evidence")
REPLAY_DIR = os.environ.get("VERIF_REPLAY_DIR") or os.path.join(VERIF, "replays")
FINDINGS_FILE = os.path.join(VERIF, "known_findings.json")

NPROC = int(os.environ.get("VERIF_JOBS", "0")) or min(16, os.cpu_count() or 1)


def repo_path() -> str:
    return os.environ.get("VERIF_REPO", "/repo")


def install_repo_on_path() -> str:
    """Make ``import pynetdicom`` resolve to the tree under test."""
    rp = os.path.abspath(repo_path())
    if rp in sys.path:
        sys.path.remove(rp)
    sys.path.insert(0, rp)
    import pynetdicom  # noqa

    got = os.path.dirname(os.path.dirname(os.path.abspath(pynetdicom.__file__)))
    if got != rp:
        raise RuntimeError(f"pynetdicom imported from {got}, wanted {rp}")
    return rp


@dataclass
class Violation:
    """One concrete failing case.

    key     : stable identity of the *class* of failure (input / call site /
              history) - compared against known_findings.json
    what    : one-line human description
    replay  : JSON-able data sufficient to re-run this single case
    """

    key: str
    what: str
    replay: Any = None


@dataclass
class Result:
    level: str  # exploration | fault_enumeration | model_checking
    coverage: dict
    violations: list[Violation] = field(default_factory=list)
    assumptions: list[str] = field(default_factory=list)
    notes: list[str] = field(default_factory=list)


@dataclass
class Ctx:
    prop: str
    tier: str
    seed: int
    repo: str
    replay: str | None = None

    @property
    def quick(self) -> bool:
        return self.tier == "quick"

    def pick(self, q, t):
        return q if self.tier == "quick" else t

    def log(self, *a):
        print(f"[{self.prop}]", *a, flush=True)

    # -- deterministic sample selection: seed only rotates which cases are
    #    written out as samples / the order chunks are dispatched, never the
    #    set of cases explored
    def sample_indices(self, n: int, k: int = 5) -> list[int]:
        if n <= 0:
            return []
        step = max(1, n // k)
        off = self.seed % max(1, n)
        return sorted({(off + i * step) % n for i in range(min(k, n))})


# ---------------------------------------------------------------------------
# parallel map over index chunks (fork; the workers inherit sys.path and any
# module level state built before the pool is created)

_WORKER_FN: Callable | None = None


def _call(args):
    try:
        return ("ok", _WORKER_FN(*args))
    except BaseException as e:  # noqa
        return ("err", "".join(traceback.format_exception(type(e), e, e.__traceback__)))


def pmap(fn: Callable, arglist: Sequence[tuple], jobs: int | None = None, seed: int = 0) -> list:
    """Run fn(*args) for each args tuple on a fork pool, results in input order.

    An exception in a worker is an error of the machinery and is re-raised
    here (never turned into a verdict).
    """
    global _WORKER_FN
    arglist = list(arglist)
    jobs = jobs or NPROC
    if jobs <= 1 or len(arglist) <= 1:
        return [fn(*a) for a in arglist]
    _WORKER_FN = fn
    order = list(range(len(arglist)))
    if seed and order:
        r = seed % len(order)
        order = order[r:] + order[:r]
    ctx = mp.get_context("fork")
    out: list = [None] * len(arglist)
    with ctx.Pool(min(jobs, len(arglist))) as pool:
        res = pool.map(_call, [arglist[i] for i in order], chunksize=1)
    for i, (st, val) in zip(order, res):
        if st == "err":
            raise RuntimeError("worker failed:\n" + val)
        out[i] = val
    return out


def chunks(n: int, parts: int) -> list[tuple[int, int]]:
    parts = max(1, min(parts, n))
    size = -(-n // parts)
    return [(i, min(n, i + size)) for i in range(0, n, size)]


def digest(obj: Any) -> str:
    return hashlib.sha1(repr(obj).encode()).hexdigest()[:16]


# ---------------------------------------------------------------------------
# findings


def load_findings() -> dict:
    try:
        with open(FINDINGS_FILE) as f:
            return json.load(f)
    except FileNotFoundError:
        return {"known": [], "fixed": []}


def known_keys(prop: str) -> dict[str, str]:
    return {e["key"]: e["what"] for e in load_findings().get("known", []) if e["property"] == prop}


# ---------------------------------------------------------------------------
# evidence


def _jsonable(o):
    if isinstance(o, (str, int, float, bool)) or o is None:
        return o
    if isinstance(o, bytes):
        return o.hex()
    if isinstance(o, dict):
        return {str(k): _jsonable(v) for k, v in o.items()}
    if isinstance(o, (list, tuple, set, frozenset)):
        return [_jsonable(v) for v in o]
    return repr(o)


def write_evidence(ctx: Ctx, res: Result, wall: float, n_viol: int, n_known: int) -> str:
    os.makedirs(EVIDENCE_DIR, exist_ok=True)
    cov = dict(res.coverage)
    cov.setdefault("samples", [])
    ev = {
        "property_id": ctx.prop,
        "tier": ctx.tier,
        "seed": ctx.seed,
        "level": res.level,
        "coverage": _jsonable(cov),
        "assumptions": list(res.assumptions),
        "wall_s": round(wall, 3),
        "violations": n_viol,
        "known_findings_reported": n_known,
        "repo": ctx.repo,
        "notes": list(res.notes),
    }
    path = os.path.join(EVIDENCE_DIR, f"{ctx.prop}.json")
    tmp = path + ".tmp"
    with open(tmp, "w") as f:
        json.dump(ev, f, indent=1, sort_keys=True)
        f.write("\n")
    os.replace(tmp, path)
    return path


def write_replay(ctx: Ctx, n, v: Violation) -> str:
    os.makedirs(REPLAY_DIR, exist_ok=True)
    path = os.path.join(REPLAY_DIR, f"{ctx.prop}-{n}.json")
    with open(path, "w") as f:
        json.dump(
            _jsonable({"property": ctx.prop, "key": v.key, "what": v.what, "tier": ctx.tier, "seed": ctx.seed, "replay": v.replay}),
            f,
            indent=1,
        )
        f.write("\n")
    return path


def finish(ctx: Ctx, res: Result, t0: float) -> int:
    """Classify violations against the known-findings file, write evidence and
    replay artefacts, print the interface lines, return the exit status."""
    known = known_keys(ctx.prop)
    seen_known: dict[str, str] = {}
    known_v: dict[str, Violation] = {}
    new: dict[str, Violation] = {}
    for v in res.violations:
        if v.key in known:
            seen_known.setdefault(v.key, v.what)
            known_v.setdefault(v.key, v)
        else:
            new.setdefault(v.key, v)
    for k, what in sorted(seen_known.items()):
        print(f"KNOWN-FINDING: property={ctx.prop} {k}: {known[k]}")
    rc = 0
    kf = os.path.join(REPLAY_DIR, f"{ctx.prop}-keys.json")
    if os.path.isdir(REPLAY_DIR):
        for fn in os.listdir(REPLAY_DIR):  # artefacts of earlier runs of this property are stale
            if fn.startswith(f"{ctx.prop}-") and fn.endswith(".json"):
                os.unlink(os.path.join(REPLAY_DIR, fn))
    if new:
        os.makedirs(REPLAY_DIR, exist_ok=True)
        with open(os.path.join(REPLAY_DIR, f"{ctx.prop}-keys.json"), "w") as f:
            json.dump({k: v.what for k, v in sorted(new.items())}, f, indent=1)
    for n, (k, v) in enumerate(sorted(new.items())):
        if n >= 20:
            print(f"... {len(new) - 20} more distinct violations suppressed")
            break
        path = write_replay(ctx, n, v)
        print(f"  violation key={k}: {v.what}")
        print(f"VIOLATION property={ctx.prop} replay={path}")
        rc = 1
    # the listed findings stay reproducible too: one replay artefact each (not a VIOLATION line)
    for n, (k, v) in enumerate(sorted(known_v.items())):
        if n >= 60:
            break
        write_replay(ctx, f"known-{n}", v)
    wall = time.time() - t0
    path = write_evidence(ctx, res, wall, len(new), len(seen_known))
    for note in res.notes:
        print(f"  note: {note}")
    cov = res.coverage
    brief = {k: cov[k] for k in cov if k not in ("samples", "rule", "explanation") and not isinstance(cov[k], (list, dict))}
    print(f"[{ctx.prop}] tier={ctx.tier} seed={ctx.seed} level={res.level} wall={wall:.1f}s {brief}")
    print(f"[{ctx.prop}] evidence={path} result={'VIOLATION' if rc else 'ok'}")
    return rc
