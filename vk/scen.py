"""Scenario building blocks on top of vk.sim: acceptor server thread, user
threads, event recording, outcome summaries."""
from __future__ import annotations

from vk import sim

VERIFICATION = "1.2.840.10008.1.1"
CT = "1.2.840.10008.5.1.4.1.1.2"
IVRLE = "1.2.840.10008.1.2"
EVRLE = "1.2.840.10008.1.2.1"
PORT = 11112

TIMEOUTS = dict(acse=2.0, dimse=3.0, network=5.0, connection=1.0)


def make_ae(title="AE", timeouts=None, **kw):
    from pynetdicom import AE

    to = dict(TIMEOUTS)
    to.update(timeouts or {})
    ae = AE(ae_title=title)
    ae.acse_timeout = to["acse"]
    ae.dimse_timeout = to["dimse"]
    ae.network_timeout = to["network"]
    ae.connection_timeout = to["connection"]
    sim.new_ae_lock(ae)
    return ae


class Recorder:
    """Binds notification handlers and records (side, event, detail)."""

    NOTIF = ["EVT_ABORTED", "EVT_ACCEPTED", "EVT_ESTABLISHED", "EVT_REJECTED", "EVT_RELEASED", "EVT_REQUESTED", "EVT_CONN_OPEN", "EVT_CONN_CLOSE", "EVT_FSM_TRANSITION", "EVT_PDU_SENT", "EVT_PDU_RECV", "EVT_DATA_SENT", "EVT_DATA_RECV", "EVT_ACSE_SENT", "EVT_ACSE_RECV", "EVT_DIMSE_SENT", "EVT_DIMSE_RECV"]

    def __init__(self, sched, side, which=None):
        self.sched = sched
        self.side = side
        self.log = []
        self.which = which or self.NOTIF

    def handlers(self):
        from pynetdicom import evt

        out = []
        for n in self.which:
            out.append((getattr(evt, n), self._h))
        return out

    def _h(self, event):
        n = event.event.name
        d = None
        if n == "EVT_FSM_TRANSITION":
            d = (event.current_state, event.fsm_event, event.action, event.next_state)
        elif n in ("EVT_PDU_SENT", "EVT_PDU_RECV"):
            d = type(event.pdu).__name__
        elif n in ("EVT_DATA_SENT", "EVT_DATA_RECV"):
            d = bytes(event.data)
        elif n in ("EVT_ACSE_SENT", "EVT_ACSE_RECV"):
            p = event.primitive
            d = (type(p).__name__, getattr(p, "result", None))
        elif n in ("EVT_DIMSE_SENT", "EVT_DIMSE_RECV"):
            d = type(event.message).__name__
        rec = (self.side, id_of(self, event.assoc), n, d)
        self.log.append(rec + (self.sched.now,))
        self.sched.obs.append(("evt",) + rec)


def id_of(rec, assoc):
    # stable small integer per association as seen by this recorder
    tbl = rec.__dict__.setdefault("_ids", {})
    if id(assoc) not in tbl:
        tbl[id(assoc)] = len(tbl)
        rec.__dict__.setdefault("assocs", []).append(assoc)
    return tbl[id(assoc)]


def start_server(sched, ae, handlers=(), port=PORT, contexts=None, max_requests=None, threaded=False):
    """Create the real AssociationServer (listening SimSocket) and a sim
    thread that accepts connections like serve_forever would (one
    `_handle_request_noblock` per pending connection).  threaded=True uses the
    ThreadedAssociationServer of AE.start_server(block=False): one handler
    thread per connection."""
    kw = {}
    if threaded:
        from pynetdicom.transport import ThreadedAssociationServer

        kw["server_class"] = ThreadedAssociationServer
    server = ae.make_server(("127.0.0.1", port), evt_handlers=list(handlers), contexts=contexts, **kw)
    state = {"stop": False, "handled": 0}

    def loop():
        lsock = server.socket
        while not state["stop"]:
            ok = sched.block("server.wait", "listen", lambda: bool(lsock.backlog) or state["stop"] or lsock.closed, None)
            if state["stop"] or lsock.closed:
                break
            server._handle_request_noblock()
            state["handled"] += 1
            if max_requests and state["handled"] >= max_requests:
                break

    th = sched.spawn(loop, "server")

    def stop():
        state["stop"] = True

    server._sim_stop = stop
    return server


def assoc_outcome(assoc):
    d = assoc.__dict__
    g = lambda k, dflt=False: d.get("_w_" + k, d.get(k, dflt))
    return {
        "established": g("is_established"),
        "released": g("is_released"),
        "aborted": g("is_aborted"),
        "rejected": g("is_rejected"),
        "fsm": assoc.dul.state_machine.__dict__.get("_w_current_state", assoc.dul.state_machine.__dict__.get("current_state")),
    }


def wire(sched, cid=0):
    """[(side, pdu_type)] framed from the wire tap of a connection, plus raw
    streams."""
    import struct

    conn = sched.net.conns[cid]
    out = {}
    for side in ("c", "s"):
        data = b"".join(conn.tap[side])
        pdus = []
        i = 0
        while i + 6 <= len(data):
            t, _, ln = struct.unpack(">BBL", data[i : i + 6])
            pdus.append((t, data[i : i + 6 + ln]))
            i += 6 + ln
        out[side] = {"pdus": pdus, "trailing": data[i:], "raw": data}
    return out
