"""Life-cycle scenarios with two real AEs (used by C05/C06/C26/C27)."""
from __future__ import annotations

from vk import scen, sim
from vk.explore import Scenario

REQ_SCRIPTS = ["release", "abort", "echo-release", "echo-abort", "idle"]
ACC_SCRIPTS = ["none", "release", "abort", "echo-handler-release", "echo-handler-abort"]


class UnprintableError(Exception):
    """An exception whose text cannot be produced (C26: whatever a handler raises)."""

    def __str__(self):
        raise RuntimeError("no text for this exception")

    __repr__ = __str__


class Lifecycle(Scenario):
    """requestor user script x acceptor behaviour."""

    max_steps = 30000
    max_time = 60.0

    def __init__(self, req="release", acc="none", adversarial=False, timeouts=None, raising=None, monitors=()):
        self.monitors = list(monitors)
        self.req = req
        self.acc = acc
        self.adversarial = adversarial
        self.timeouts = timeouts
        self.name = f"lifecycle[{req}|{acc}]"
        self.raising = raising  # optional: notification events whose handler raises (C26)

    def build(self, s):
        from pynetdicom import evt

        acc = scen.make_ae("ACC", self.timeouts)
        acc.add_supported_context(scen.VERIFICATION)
        rq = scen.make_ae("REQ", self.timeouts)
        rq.add_requested_context(scen.VERIFICATION)
        ra = scen.Recorder(s, "acc")
        rr = scen.Recorder(s, "req")
        ctx = {"ra": ra, "rr": rr, "res": {}, "acc_assocs": [], "calls": []}
        acc_handlers = list(ra.handlers())
        req_handlers = list(rr.handlers())
        def on_established(event):
            a = event.assoc
            ctx["acc_assocs"].append(a)
            if self.acc in ("release", "abort"):
                def acc_user():
                    ctx["calls"].append(("acc", self.acc))
                    getattr(a, self.acc)()
                    ctx["calls"].append(("acc", self.acc, "returned"))

                s.spawn(acc_user, "acc-user")

        acc_handlers.append((evt.EVT_ESTABLISHED, on_established))

        def on_echo(event):
            if self.acc == "echo-handler-release":
                event.assoc.release()
            elif self.acc == "echo-handler-abort":
                event.assoc.abort()
            return 0x0000

        acc_handlers.append((evt.EVT_C_ECHO, on_echo))
        if self.raising:
            # bound LAST: pynetdicom stops calling an event's remaining handlers
            # after one raises, and the harness observes through handlers too
            def boom(event):
                if not getattr(self, "raising_disabled", False):
                    flavour = getattr(self, "exc_flavour", None)
                    if flavour == "empty":
                        raise ValueError()  # str(exc) == ""
                    if flavour == "assert":
                        assert event is None
                    if flavour == "multiline":
                        raise RuntimeError("first line\nsecond line\n")
                    if flavour == "str-raises":
                        raise UnprintableError()
                    if flavour == "non-ascii":
                        raise KeyError("é中😀 %s {0} %(x)s")
                    raise RuntimeError("notification handler failure")

            for name in self.raising:
                acc_handlers.append((getattr(evt, name), boom))
                req_handlers.append((getattr(evt, name), boom))
        scen.start_server(s, acc, acc_handlers, max_requests=1)
        res = ctx["res"]

        def user():
            a = rq.associate("127.0.0.1", scen.PORT, evt_handlers=req_handlers)
            res["assoc"] = a
            res["established"] = a.is_established
            if not a.is_established:
                return
            for op in self.req.split("-"):
                if op == "echo":
                    st = a.send_c_echo()
                    res["echo"] = st.Status if "Status" in st else None
                elif op == "release":
                    a.release()
                elif op == "abort":
                    a.abort()
                elif op == "idle":
                    pass
                ctx["calls"].append(("req", op, "returned"))

        s.spawn(user, "user")
        return ctx

    # ---- monitors -------------------------------------------------------
    def check(self, s, ctx, why):
        v = []
        for m in self.monitors:
            for key, what in m(self, s, ctx, why):
                v.append((f"{self.name}:{key}", what))
        return v

    def summary(self, s, ctx, why):
        a = ctx["res"].get("assoc")
        ro = scen.assoc_outcome(a) if a is not None else None
        ao = scen.assoc_outcome(ctx["acc_assocs"][0]) if ctx["acc_assocs"] else None
        t = lambda o: None if o is None else tuple(k for k in ("released", "aborted", "rejected") if o[k])
        fsm_r = tuple(x[3][2] for x in ctx["rr"].log if x[2] == "EVT_FSM_TRANSITION")
        fsm_a = tuple(x[3][2] for x in ctx["ra"].log if x[2] == "EVT_FSM_TRANSITION")
        return (why, t(ro), t(ao), fsm_r, fsm_a)


# ---------------------------------------------------------------------------
# shared driver for the checks built on life-cycle scenarios


def run_family(ctx, scns, D, level="model_checking", cap_per_worker=None, kinds=None, extra_cov=None):
    from vk import core, explore

    viol = []
    tot = {"executions": 0, "decisions": 0, "steps": 0}
    outcomes = {}
    per = []
    capped = False
    samples = []
    results = explore.explore_family(scns, D, kinds=kinds, seed=ctx.seed, cap_per_item=cap_per_worker)
    for scn, r in zip(scns, results):
        st = r["stats"]
        for k in tot:
            tot[k] += st.get(k, 0)
        capped = capped or bool(st.get("capped"))
        outcomes[scn.name] = len(r["summaries"])
        per.append({"scenario": scn.name, "executions": st["executions"], "default_decisions": st["default_decisions"], "distinct_outcomes": len(r["summaries"]), "wall_s": st["wall_s"]})
        for key, (what, prefix) in r["viols"].items():
            # the key carries the smallest number of scheduling deviations at which the failure was
            # seen: the same symptom reachable with fewer deviations is a different (worse) failure
            nd = explore.deviations(prefix)
            viol.append(core.Violation(f"{key}:D{nd}", f"{what} [first seen with {nd} deviation(s) from the default schedule]", {"scenario": scenario_spec(scn), "choices": prefix}))
        if len(samples) < 4:
            top = sorted(r["summaries"].items(), key=lambda kv: -kv[1])[:2]
            samples.append({"scenario": scn.name, "D": D, "outcomes": [{"why": k[0], "req": k[1], "acc": k[2], "count": n} for k, n in top]})
        ctx.log(f"{scn.name}: D={D} executions={st['executions']} outcomes={len(r['summaries'])} viol_keys={len(r['viols'])} {st['wall_s']}s")
    cov = {
        "states": tot["steps"],
        "transitions": tot["decisions"],
        "traces_validated_against_impl": tot["executions"],
        "executions": tot["executions"],
        "scheduling_decisions": tot["decisions"],
        "scheduler_steps": tot["steps"],
        "deviation_bound_completed": None if capped else D,
        "capped": capped,
        "scenarios": len(scns),
        "distinct_outcomes_total": sum(outcomes.values()),
        "per_scenario": per,
        "samples": samples,
        "explanation": "states = scheduler steps executed on the real code (every step is a visited program state of the threaded system); transitions = scheduling decisions with >1 candidate; every execution IS the implementation (no separate model), so traces_validated_against_impl = executions",
    }
    # replay determinism: the same recorded schedule executed twice must give identical
    # observation logs, decision traces and summaries (a divergence is a harness error, never a verdict)
    ndet = 0
    for scn in scns[:: max(1, len(scns) // 5)]:
        a = explore.execute(scn, (), want_obs=True)
        for prefix in ((), tuple(c for _, c, _ in a["trace"][: len(a["trace"]) // 2]) + (1,) if any(n > 1 for n, _, _ in a["trace"][len(a["trace"]) // 2 : len(a["trace"]) // 2 + 1]) else ()):
            x = explore.execute(scn, prefix, want_obs=True)
            y = explore.execute(scn, prefix, want_obs=True)
            if (x["obs"], x["trace"], x["summary"]) != (y["obs"], y["trace"], y["summary"]):
                raise sim.ReplayDivergence(f"{scn.name}: two executions of the same schedule differ")
            ndet += 1
    cov["replay_determinism_schedules_checked_twice"] = ndet
    if extra_cov:
        cov.update(extra_cov)
    return core.Result(
        level,
        cov,
        viol,
        assumptions=[
            "threads are switched only at sim primitives (time/queue/threading/socket/select operations) and at accesses to the watched shared flags; CPython bytecode atomicity otherwise",
            "socket/queue/event doubles behave like the OS objects (validated by selftest/fidelity)",
            f"schedules explored: all with <= {D} deviations from the deterministic default scheduler, prompt virtual time",
        ],
    )


def scenario_spec(scn):
    return {"req": scn.req, "acc": scn.acc, "adversarial": scn.adversarial, "timeouts": scn.timeouts, "raising": scn.raising}


def replay(ctx, data, monitors):
    from vk import explore

    spec = data["scenario"]
    scn = Lifecycle(spec["req"], spec["acc"], adversarial=spec.get("adversarial", False), timeouts=spec.get("timeouts"), raising=spec.get("raising"), monitors=monitors)
    r1 = explore.execute(scn, tuple(data["choices"]), want_obs=True)
    r2 = explore.execute(scn, tuple(data["choices"]), want_obs=True)
    if r1["obs"] != r2["obs"]:
        print("REPLAY-DIVERGENCE: two replays of the same schedule differ")
        return 2
    for o in r1["obs"]:
        if o[0] == "evt" and o[3] in ("EVT_DATA_SENT", "EVT_DATA_RECV"):
            continue
        print(o)
    print("why:", r1["why"], "summary:", r1["summary"][:3])
    for k, w in r1["viol"]:
        print("VIOLATED:", k, "-", w)
    return 1 if r1["viol"] else 0
