"""Monitors evaluated on finished executions of life-cycle scenarios.

Each monitor: f(scn, s, ctx, why) -> list[(key, what)].
ctx must provide: rr / ra (scen.Recorder for requestor / acceptor side),
res (dict with 'assoc', 'established'), acc_assocs (list).
"""
from __future__ import annotations

import re
import struct

from vk import scen

TERMINAL_EVT = {"released": "EVT_RELEASED", "aborted": "EVT_ABORTED", "rejected": "EVT_REJECTED"}


def term(o):
    return [k for k in ("released", "aborted", "rejected") if o[k]]


def thread_exceptions(s):
    out = []
    for o in s.obs:
        if o[0] == "thread-exception":
            m = re.search(r"Invalid event '(\w+)' for the current state '(\w+)'", o[3])
            if m:
                out.append((o[1], f"InvalidEventError-{m.group(1)}-{m.group(2)}", o[3]))
            else:
                out.append((o[1], o[2], o[3]))
    return out


def mon_no_thread_exception(scn, s, ctx, why):
    return [(f"uncaught-{kind}-in-{th}", f"{scn.name}: uncaught exception in thread {th}: {msg}") for th, kind, msg in thread_exceptions(s)]


def mon_terminates(scn, s, ctx, why):
    if why == "terminated":
        return []
    bl = s.describe_blocked()
    sites = sorted({(b[0], b[2], (b[5] or ["?"])[0]) for b in bl})
    return [(f"not-terminated-{why}:" + "+".join(f"{x[0]}@{x[2].split(':')[1] if ':' in x[2] else x[2]}" for x in sites), f"{scn.name}: execution ended '{why}' (virtual t={s.now - s.t0:.3f}s) with live threads {sites}")]


def sides_of(ctx):
    a = ctx["res"].get("assoc")
    out = []
    if a is not None:
        out.append(("req", a, ctx["rr"]))
    for b in ctx["acc_assocs"][:1]:
        out.append(("acc", b, ctx["ra"]))
    return out


def mon_provider_idle(scn, s, ctx, why):
    """C05: provider back in Sta1, its thread finished, transport closed."""
    v = []
    if why != "terminated":
        return v
    for side, a, rec in sides_of(ctx):
        o = scen.assoc_outcome(a)
        if o["fsm"] != "Sta1":
            v.append((f"{side}-fsm-{o['fsm']}", f"{scn.name}: {side} provider ended in {o['fsm']}, not idle"))
    for conn in s.net.conns:
        for ep in (conn.c, conn.s):
            if not ep.closed:
                v.append((f"socket-open-{ep.side}", f"{scn.name}: transport connection of side {ep.side} left open"))
    return v


def mon_outcome_agreement(scn, s, ctx, why):
    """C06: one terminal flag and one terminal event per side, both sides agree."""
    v = []
    if why != "terminated":
        return v
    sides = sides_of(ctx)
    if not sides:
        return [("no-assoc", f"{scn.name}: associate() did not return an association")]
    outs = {}
    for side, a, rec in sides:
        o = scen.assoc_outcome(a)
        outs[side] = o
        was_est = any(x[2] == "EVT_ESTABLISHED" for x in rec.log) or bool(term(o))
        if was_est or side == "acc":
            if len(term(o)) != 1:
                v.append((f"{side}-terminal-flags-{'+'.join(term(o)) or 'none'}", f"{scn.name}: {side} ends with terminal flags {term(o)} (exactly one expected): {o}"))
        if o["established"]:
            v.append((f"{side}-still-established", f"{scn.name}: {side} still is_established after everything ended"))
        evs = [x[2] for x in rec.log if x[2] in TERMINAL_EVT.values()]
        if (was_est or side == "acc") and len(evs) != 1:
            v.append((f"{side}-terminal-events-{'+'.join(evs) or 'none'}", f"{scn.name}: {side} fired terminal events {evs} (exactly one expected)"))
        elif evs and len(term(o)) == 1 and evs[0] != TERMINAL_EVT[term(o)[0]]:
            v.append((f"{side}-event-flag-mismatch-{evs[0]}-{term(o)[0]}", f"{scn.name}: {side} fired {evs} but flags say {term(o)}"))
    if "req" in outs and "acc" in outs:
        r, c = term(outs["req"]), term(outs["acc"])
        if len(r) == 1 and len(c) == 1 and r != c:
            v.append((f"disagree-req-{r[0]}-acc-{c[0]}", f"{scn.name}: requestor ends {r}, acceptor ends {c}"))
    return v


def mon_time_bound(scn, s, ctx, why):
    """Prompt-time only: everything ends within the largest timeout + margin
    after the last user call was issued."""
    if scn.adversarial or why != "terminated":
        return []
    T = dict(scen.TIMEOUTS)
    T.update(getattr(scn, "timeouts", None) or {})
    bound = max(T.values()) + max(T["acse"], T["dimse"]) + 0.6
    el = s.now - s.t0
    if el > bound:
        return [(f"slow-{int(el)}s", f"{scn.name}: took {el:.2f}s of virtual time, bound {bound:.2f}s")]
    return []


PDU_CLS = {1: "A_ASSOCIATE_RQ", 2: "A_ASSOCIATE_AC", 3: "A_ASSOCIATE_RJ", 4: "P_DATA_TF", 5: "A_RELEASE_RQ", 6: "A_RELEASE_RP", 7: "A_ABORT_RQ"}


def mon_history(scn, s, ctx, why):
    """C27: notifications form a well-formed history per association."""
    v = []
    wires = scen.wire(s, 0) if s.net.conns else None
    for side, a, rec in sides_of(ctx):
        log = [x for x in rec.log if x[1] == 0]
        names = [x[2] for x in log]
        # FSM chain
        cur = "Sta1"
        for x in log:
            if x[2] == "EVT_FSM_TRANSITION":
                if x[3][0] != cur:
                    v.append((f"{side}-fsm-chain-{cur}-{x[3][0]}", f"{scn.name}: {side} transition {x[3]} starts in {x[3][0]} but previous ended in {cur}"))
                cur = x[3][3]
        # connection events
        conn = [n for n in names if n in ("EVT_CONN_OPEN", "EVT_CONN_CLOSE")]
        if conn:
            nn = [n for n in names if n not in ("EVT_REQUESTED", "EVT_ACSE_SENT")]  # a requestor queues its request before the transport exists
            first_other = next((n for n in nn if n not in ("EVT_FSM_TRANSITION",)), None)
            if conn[0] != "EVT_CONN_OPEN":
                v.append((f"{side}-conn-first-{conn[0]}", f"{scn.name}: {side} first connection event is {conn[0]}"))
            elif side == "acc" and names[0] != "EVT_CONN_OPEN":
                # an acceptor association exists because a connection was opened: nothing at all - not
                # even a state-machine transition - is notified before EVT_CONN_OPEN
                v.append((f"{side}-open-not-first-{names[0]}", f"{scn.name}: {side} {names[0]} notified before EVT_CONN_OPEN"))
            elif first_other != "EVT_CONN_OPEN":
                v.append((f"{side}-open-not-first-{first_other}", f"{scn.name}: {side} {first_other} notified before EVT_CONN_OPEN"))
            ncl = conn.count("EVT_CONN_CLOSE")
            if why == "terminated" and ncl != 1:
                v.append((f"{side}-conn-close-x{ncl}", f"{scn.name}: {side} EVT_CONN_CLOSE fired {ncl} times"))
            if ncl and conn[-1] != "EVT_CONN_CLOSE":
                v.append((f"{side}-conn-close-not-last", f"{scn.name}: {side} connection events {conn}"))
            if conn.count("EVT_CONN_OPEN") != 1:
                v.append((f"{side}-conn-open-x{conn.count('EVT_CONN_OPEN')}", f"{scn.name}: {side} EVT_CONN_OPEN fired {conn.count('EVT_CONN_OPEN')} times"))
        # established
        ne = names.count("EVT_ESTABLISHED")
        if ne > 1:
            v.append((f"{side}-established-x{ne}", f"{scn.name}: {side} EVT_ESTABLISHED fired {ne} times"))
        if ne:
            ie = names.index("EVT_ESTABLISHED")
            for t in ("EVT_RELEASED", "EVT_ABORTED"):
                if t in names and names.index(t) < ie:
                    v.append((f"{side}-{t}-before-established", f"{scn.name}: {side} {t} before EVT_ESTABLISHED"))
        # PDU notifications vs the wire
        if wires is not None:
            mine, theirs = ("c", "s") if side == "req" else ("s", "c")
            sent_evt = [x[3] for x in log if x[2] == "EVT_PDU_SENT"]
            recv_evt = [x[3] for x in log if x[2] == "EVT_PDU_RECV"]
            sent_wire = [PDU_CLS.get(t, f"?{t}") for t, _ in wires[mine]["pdus"]]
            if sent_evt != sent_wire:
                k = _first_diff(sent_evt, sent_wire)
                v.append((f"{side}-pdu-sent-mismatch-{k}", f"{scn.name}: {side} EVT_PDU_SENT {sent_evt} but wire carried {sent_wire}"))
            got_wire = [PDU_CLS.get(t, f"?{t}") for t, _ in wires[theirs]["pdus"]]
            # received notifications must be a prefix of what the peer put on the wire
            if recv_evt != got_wire[: len(recv_evt)]:
                k = _first_diff(recv_evt, got_wire)
                v.append((f"{side}-pdu-recv-mismatch-{k}", f"{scn.name}: {side} EVT_PDU_RECV {recv_evt} but peer sent {got_wire}"))
            data_sent = b"".join(x[3] for x in log if x[2] == "EVT_DATA_SENT")
            if data_sent != wires[mine]["raw"]:
                v.append((f"{side}-data-sent-mismatch", f"{scn.name}: {side} EVT_DATA_SENT bytes ({len(data_sent)}) differ from the wire ({len(wires[mine]['raw'])})"))
            data_recv = b"".join(x[3] for x in log if x[2] == "EVT_DATA_RECV")
            if not wires[theirs]["raw"].startswith(data_recv):
                v.append((f"{side}-data-recv-mismatch", f"{scn.name}: {side} EVT_DATA_RECV bytes are not a prefix of what the peer sent"))
    return v


def _first_diff(a, b):
    for i, (x, y) in enumerate(zip(a, b)):
        if x != y:
            return f"{i}-{x}-vs-{y}"
    if len(a) > len(b):
        return f"{len(b)}-{a[len(b)]}-vs-nothing"
    if len(b) > len(a):
        return f"{len(a)}-nothing-vs-{b[len(a)]}"
    return "same"
