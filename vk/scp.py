"""Sequential driver for the real service-class SCP implementations with
enumerated handler behaviours (used by C20, C21, C22, C19).

The association is a real, unstarted Association object whose DIMSE provider
is a recording double; C-STORE sub-operations are scripted."""
from __future__ import annotations

from io import BytesIO

from vk import stubs
from vk.ref import status as refstatus

IVRLE = "1.2.840.10008.1.2"
FIND = "1.2.840.10008.5.1.4.1.2.1.1"
GET = "1.2.840.10008.5.1.4.1.2.1.3"
MOVE = "1.2.840.10008.5.1.4.1.2.1.2"
CT = "1.2.840.10008.5.1.4.1.1.2"
ECHO = "1.2.840.10008.1.1"
MPPS = "1.2.840.10008.3.1.2.3.3"
PRINT_JOB = "1.2.840.10008.5.1.1.14"

# ---- handler-yield alphabet -------------------------------------------------
# each item: (name, factory(i) -> the value yielded / action)


def mk_ds(i=0, with_meta=True):
    from pydicom.dataset import Dataset, FileMetaDataset

    ds = Dataset()
    ds.PatientID = f"P{i}"
    ds.SOPClassUID = CT
    ds.SOPInstanceUID = f"1.2.3.{i}"
    ds.QueryRetrieveLevel = "PATIENT"
    if with_meta:
        ds.file_meta = FileMetaDataset()
        ds.file_meta.TransferSyntaxUID = IVRLE
    return ds


def status_ds(code, **kw):
    from pydicom.dataset import Dataset

    ds = Dataset()
    if code is not None:
        ds.Status = code
    for k, v in kw.items():
        setattr(ds, k, v)
    return ds


class Raise(Exception):
    pass


# name -> (yield value builder, sub-operation outcome or None)
def item_value(name, i):
    if name.startswith("P_"):  # pending with valid dataset; suffix = sub-operation outcome
        return (0xFF00, mk_ds(i))
    return {
        "pend_none": lambda: (0xFF00, None),
        "pend_bad": lambda: (0xFF00, "not a dataset"),
        "pend_warn": lambda: (0xFF01, mk_ds(i)),
        "pend_empty": lambda: (0xFF00, __import__("pydicom").dataset.Dataset()),
        "success": lambda: (0x0000, None),
        "warning_b001": lambda: (0xB001, None),
        "warning_b000": lambda: (0xB000, None),
        "failure": lambda: (0xA700, None),
        "failure_c": lambda: (0xC123, None),
        "cancel": lambda: (0xFE00, None),
        "unknown": lambda: (0xFFF0, None),
        "oor_big": lambda: (0x10000, None),
        "oor_neg": lambda: (-1, None),
        "gen_warning": lambda: (0x0107, None),
        "status_ds_pending": lambda: (status_ds(0xFF00), mk_ds(i)),
        "status_ds_fail": lambda: (status_ds(0xA700, ErrorComment="boom", OffendingElement=[0x00100010]), None),
        "status_ds_nostatus": lambda: (status_ds(None, ErrorComment="x"), None),
        "status_str": lambda: ("0xFF00", mk_ds(i)),
        "arity1": lambda: (0xFF00,),
        "arity3": lambda: (0xFF00, mk_ds(i), 1),
        "scalar": lambda: 0xFF00,
    }[name]()


SUBOP = {"P_ok": 0x0000, "P_warn": 0xB000, "P_fail": 0xA700, "P_exc": "raise", "P_unknown": 0x1234, "P_nostatus": None}


class StoreStub:
    """Scripted C-STORE sub-operation target."""

    def __init__(self, outcomes, lose_after=None):
        self.outcomes = list(outcomes)
        self.calls = []
        self.is_established = True
        self.released = False
        self.lose_after = lose_after

    def send_c_store(self, dataset, msg_id=1, **kw):
        from pydicom.dataset import Dataset

        self.calls.append((msg_id, getattr(dataset, "SOPInstanceUID", None)))
        oc = self.outcomes.pop(0) if self.outcomes else 0x0000
        if self.lose_after is not None and len(self.calls) > self.lose_after:
            self.is_established = False
            return Dataset()
        if oc == "raise":
            raise RuntimeError("sub-operation failed")
        ds = Dataset()
        if oc is not None:
            ds.Status = oc
        return ds

    def release(self):
        self.released = True

    class _Sock:
        def close(self):
            pass

    @property
    def dul(self):
        class D:
            socket = StoreStub._Sock()

        return D()


def run_qr(kind, seq, count=None, dest="ok", raise_at=None, pre=None, msg_id=7, cx_id=1, lose_after=None, abort_at=None, ts=IVRLE, items=None):
    """kind: find|get|move.  seq: list of alphabet names.  count: first yield
    of get/move (None -> number of P_* items).  raise_at: index at which the
    generator raises instead of yielding (len(seq) = after the last yield).
    pre: 'raise' (handler raises before returning a generator), 'none'
    (returns None), 'list' (returns a list instead of a generator).
    Returns dict(responses=[snapshots], handler_log, established, store)."""
    from pynetdicom import evt
    from pynetdicom.dimse_primitives import C_FIND, C_GET, C_MOVE
    from pynetdicom.presentation import build_context
    from pynetdicom.service_class import QueryRetrieveServiceClass

    uid = {"find": FIND, "get": GET, "move": MOVE}[kind]
    assoc = stubs.make_assoc("acceptor", contexts=[(cx_id, uid, ts, False, True), (cx_id + 2 if cx_id < 253 else 1, CT, IVRLE, True, True)])
    outcomes = [SUBOP[s] for s in seq if s in SUBOP]
    store = StoreStub(outcomes, lose_after=lose_after)
    assoc.send_c_store = store.send_c_store
    assoc.ae.associate = lambda *a, **kw: store
    log = []
    n_valid = sum(1 for s in seq if s in SUBOP)
    cnt = n_valid if count is None else count

    def gen(event):
        if kind == "move":
            yield {"ok": ("127.0.0.1", 11113), "none": (None, None), "bad": "nonsense", "kwargs": ("127.0.0.1", 11113, {"max_pdu": 0})}[dest]
        if kind in ("get", "move"):
            yield cnt
        for i, name in enumerate(seq):
            if raise_at == i:
                raise Raise("handler failure")
            if abort_at == i:
                event.assoc.abort()
            log.append(name)
            yield items[name]() if items and name in items else item_value(name, i)
        if raise_at == len(seq):
            raise Raise("handler failure")

    def handler(event):
        if pre == "raise":
            raise Raise("handler failure")
        if pre == "none":
            return None
        if pre == "list":
            return [item_value(n, i) for i, n in enumerate(seq)]
        return gen(event)

    ev = {"find": evt.EVT_C_FIND, "get": evt.EVT_C_GET, "move": evt.EVT_C_MOVE}[kind]
    assoc.bind(ev, handler)
    req = {"find": C_FIND, "get": C_GET, "move": C_MOVE}[kind]()
    req.MessageID = msg_id
    req.AffectedSOPClassUID = uid
    req.Priority = 2
    from pynetdicom.dsutils import encode

    req.Identifier = BytesIO(encode(mk_ds(0, False), True, True))
    if kind == "move":
        req.MoveDestination = "DEST"
    cx = build_context(uid, ts)
    cx.context_id = cx_id
    svc = QueryRetrieveServiceClass(assoc)
    exc = None
    try:
        svc.SCP(req, cx)
    except Exception as e:  # noqa
        exc = f"{type(e).__name__}: {e}"
    return {"responses": list(assoc.dimse.sent), "log": log, "established": assoc.is_established, "aborted": assoc.is_aborted, "store": store, "exception": exc, "count": cnt, "req_id": msg_id, "cx_id": cx_id}


# ---- oracles ---------------------------------------------------------------


def oracle_c20(kind, rec, allow_missing_final=False):
    """Pending* (0xB001 allowed in C-FIND) then exactly one final; right ID and
    context; nothing after the final."""
    bad = []
    if rec["exception"]:
        bad.append(("scp-raised", f"SCP() raised {rec['exception']}"))
    rs = rec["responses"]
    finals = 0
    for i, (cx, snap) in enumerate(rs):
        st = snap.get("Status")
        if cx != rec["cx_id"]:
            bad.append(("wrong-context", f"response {i} sent on context {cx}, request came on {rec['cx_id']}"))
        if snap.get("MessageIDBeingRespondedTo") != rec["req_id"]:
            bad.append(("wrong-message-id", f"response {i} has MessageIDBeingRespondedTo {snap.get('MessageIDBeingRespondedTo')}, request ID {rec['req_id']}"))
        if st is None:
            bad.append(("no-status", f"response {i} has no Status"))
            continue
        final = refstatus.is_final(st) and not (kind == "find" and st == 0xB001)
        if finals and True:
            bad.append(("after-final", f"response {i} (0x{st:04X}) sent after the final response: {[hex(s[1].get('Status') or 0) for s in rs]}"))
            break
        if final:
            finals += 1
    if finals == 0 and not allow_missing_final:
        bad.append(("no-final", f"no final response: sent {[hex(s[1].get('Status') or 0) for s in rs]}"))
    return bad
