"""Raw DIMSE-speaking peer helpers (hand-built bytes, PS3.7 command sets in
implicit VR little endian) for scenarios where the peer must act at precise
points of an operation."""
from __future__ import annotations

import struct

from vk import peer as P, scen

FIND = "1.2.840.10008.5.1.4.1.2.1.1"
GET = "1.2.840.10008.5.1.4.1.2.1.3"
MOVE = "1.2.840.10008.5.1.4.1.2.1.2"
CT = scen.CT
ECHO = scen.VERIFICATION

C_STORE_RQ, C_STORE_RSP = 0x0001, 0x8001
C_GET_RQ, C_GET_RSP = 0x0010, 0x8010
C_FIND_RQ, C_FIND_RSP = 0x0020, 0x8020
C_MOVE_RQ, C_MOVE_RSP = 0x0021, 0x8021
C_ECHO_RQ, C_ECHO_RSP = 0x0030, 0x8030
C_CANCEL_RQ = 0x0FFF


def uid_bytes(u):
    b = u.encode()
    return b + b"\x00" if len(b) % 2 else b


def elem(g, e, v):
    return struct.pack("<HHL", g, e, len(v)) + v


def us(v):
    return struct.pack("<H", v)


def cmd(field, sop=None, msg_id=None, rsp_to=None, has_ds=False, status=None, priority=None, extra=b"", instance=None):
    body = b""
    if sop is not None:
        body += elem(0, 2, uid_bytes(sop))
    body += elem(0, 0x100, us(field))
    if msg_id is not None:
        body += elem(0, 0x110, us(msg_id))
    if rsp_to is not None:
        body += elem(0, 0x120, us(rsp_to))
    if priority is not None:
        body += elem(0, 0x700, us(priority))
    body += elem(0, 0x800, us(0x0001 if has_ds else 0x0101))
    if status is not None:
        body += elem(0, 0x900, us(status))
    if instance is not None:
        body += elem(0, 0x1000, uid_bytes(instance))
    body += extra
    return elem(0, 0, struct.pack("<L", len(body))) + body


def pdata(cx, payload, command=True, last=True):
    return P.pdata(cx, payload, command=command, last=last)


def identifier(level=b"PATIENT ", pid=b"1 "):
    return elem(0x0008, 0x0052, level) + elem(0x0010, 0x0020, pid)


def find_rq(cx, msg_id, sop=FIND):
    return pdata(cx, cmd(C_FIND_RQ, sop, msg_id=msg_id, has_ds=True, priority=2)) + pdata(cx, identifier(), command=False)


def get_rq(cx, msg_id, sop=GET):
    return pdata(cx, cmd(C_GET_RQ, sop, msg_id=msg_id, has_ds=True, priority=2)) + pdata(cx, identifier(), command=False)


def move_rq(cx, msg_id, dest=b"DEST            ", sop=MOVE):
    return pdata(cx, cmd(C_MOVE_RQ, sop, msg_id=msg_id, has_ds=True, priority=2, extra=elem(0, 0x600, dest))) + pdata(cx, identifier(), command=False)


def cancel_rq(cx, rsp_to):
    return pdata(cx, cmd(C_CANCEL_RQ, None, rsp_to=rsp_to))


def store_rsp(cx, rsp_to, status=0, sop=CT, instance="1.2.3"):
    return pdata(cx, cmd(C_STORE_RSP, sop, rsp_to=rsp_to, status=status, instance=instance))


def echo_rq(cx, msg_id):
    return pdata(cx, cmd(C_ECHO_RQ, ECHO, msg_id=msg_id))


def assoc_rq(contexts, roles=(), calling="PEER", called="ACC", max_pdu=16382):
    """contexts: [(id, abstract, [transfer syntaxes])]; roles: [(sop, scu, scp)]"""
    pcs = b""
    for cid, ab, tss in contexts:
        pcs += P._item(0x20, bytes([cid, 0, 0, 0]) + P._item(0x30, ab.encode()) + b"".join(P._item(0x40, t.encode()) for t in tss))
    ui = P._item(0x51, struct.pack(">L", max_pdu)) + P._item(0x52, b"1.2.3.4.5")
    for sop, scu, scp in roles:
        u = sop.encode()
        ui += P._item(0x54, struct.pack(">H", len(u)) + u + bytes([scu, scp]))
    return P._pdu(1, struct.pack(">HH", 1, 0) + P._ae(called) + P._ae(calling) + b"\x00" * 32 + P.APP_CTX + pcs + P._item(0x50, ui))


def parse_pdus(data):
    """-> list of (type, body bytes), remaining"""
    out = []
    i = 0
    while i + 6 <= len(data):
        t, _, ln = struct.unpack(">BBL", data[i : i + 6])
        if i + 6 + ln > len(data):
            break
        out.append((t, data[i + 6 : i + 6 + ln]))
        i += 6 + ln
    return out, data[i:]


def parse_pdvs(body):
    out = []
    i = 0
    while i + 6 <= len(body):
        (ln,) = struct.unpack(">L", body[i : i + 4])
        cx, hdr = body[i + 4], body[i + 5]
        out.append((cx, bool(hdr & 1), bool(hdr & 2), body[i + 6 : i + 4 + ln]))
        i += 4 + ln
    return out


def parse_cmd(b):
    """implicit VR LE group-0 elements -> {(g,e): bytes}"""
    d = {}
    i = 0
    while i + 8 <= len(b):
        g, e, ln = struct.unpack("<HHL", b[i : i + 8])
        d[(g, e)] = b[i + 8 : i + 8 + ln]
        i += 8 + ln
    return d


class MessageReader:
    """Reassembles DIMSE messages from the bytes a raw peer receives."""

    def __init__(self):
        self.buf = b""
        self.pdus = []  # (type, body)
        self.msgs = []  # dict(cx, field, msg_id, rsp_to, status, cmd, data)
        self._cmd = {}
        self._data = {}
        self._cur = None

    def feed(self, data):
        self.buf += data
        pdus, self.buf = parse_pdus(self.buf)
        for t, body in pdus:
            self.pdus.append((t, body))
            if t != 4:
                continue
            for cx, is_cmd, last, frag in parse_pdvs(body):
                if is_cmd:
                    self._cmd[cx] = self._cmd.get(cx, b"") + frag
                    if last:
                        c = parse_cmd(self._cmd.pop(cx))
                        g = lambda k: struct.unpack("<H", c[k][:2])[0] if k in c else None
                        m = {"cx": cx, "field": g((0, 0x100)), "msg_id": g((0, 0x110)), "rsp_to": g((0, 0x120)), "status": g((0, 0x900)), "has_ds": g((0, 0x800)) != 0x0101, "cmd": c, "data": None, "remaining": g((0, 0x1020)), "completed": g((0, 0x1021)), "failed": g((0, 0x1022)), "warning": g((0, 0x1023))}
                        if m["has_ds"]:
                            self._cur = m
                        else:
                            self.msgs.append(m)
                else:
                    self._data[cx] = self._data.get(cx, b"") + frag
                    if last and self._cur is not None:
                        self._cur["data"] = self._data.pop(cx)
                        self.msgs.append(self._cur)
                        self._cur = None
