"""Single-response services (C-ECHO, C-STORE, DIMSE-N) for C20/C21: every
return shape of the bound handler through the real SCP implementations."""
from __future__ import annotations

from io import BytesIO

from vk import scp, stubs
from vk.ref import status as refstatus

FILM_SESSION = "1.2.840.10008.5.1.1.1"  # Print Management: all six DIMSE-N services
IVRLE = scp.IVRLE

# return-value alphabet ------------------------------------------------------
STATUS_SHAPES = ["ok", "warn", "fail", "unknown", "ds_ok", "ds_fail_extra", "ds_fail_zero", "ds_nostatus", "str", "none", "neg", "big"]
DS_SHAPES = ["ds", "none", "empty", "notads"]
SPECIAL = ["raise", "abort", "arity1", "arity3", "scalar"]


def status_value(shape):
    from pydicom.dataset import Dataset

    if shape == "ok":
        return 0x0000
    if shape == "warn":
        return 0x0107
    if shape == "fail":
        return 0x0110
    if shape == "unknown":
        return 0x1234
    if shape == "ds_ok":
        return scp.status_ds(0x0000)
    if shape == "ds_fail_extra":
        return scp.status_ds(0x0110, ErrorComment="it failed", ErrorID=7)
    if shape == "ds_fail_zero":
        # optional status elements whose value is falsy but present (Error ID 0) must be copied too
        return scp.status_ds(0x0110, ErrorComment="it failed", ErrorID=0)
    if shape == "ds_nostatus":
        return scp.status_ds(None, ErrorComment="x")
    if shape == "str":
        return "0x0000"
    if shape == "none":
        return None
    if shape == "neg":
        return -1
    if shape == "big":
        return 0x10000
    raise KeyError(shape)


def ds_value(shape):
    from pydicom.dataset import Dataset

    if shape == "ds":
        d = Dataset()
        d.PatientName = "Test^Name"
        d.PatientID = "12345"
        return d
    if shape == "none":
        return None
    if shape == "empty":
        return Dataset()
    return "not a dataset"


EXPECTED_EXC = {"echo": 0x0000, "store": 0xC211, "n": 0x0110}


TS_FLAGS = {"1.2.840.10008.1.2": (True, True, False), "1.2.840.10008.1.2.1": (False, True, False), "1.2.840.10008.1.2.2": (False, False, False), "1.2.840.10008.1.2.1.99": (False, True, True)}


def eval_single(service, sshape, dshape=None, special=None, msg_id=7, cx_id=1, ts=IVRLE):
    """Returns (problems for C20, problems for C21, response statuses)."""
    from pynetdicom import evt
    from pynetdicom import dimse_primitives as dp
    from pynetdicom.dsutils import decode, encode
    from pynetdicom.presentation import build_context
    from pynetdicom.sop_class import uid_to_service_class

    uid = {"echo": scp.ECHO, "store": scp.CT}.get(service, FILM_SESSION)
    assoc = stubs.make_assoc("acceptor", contexts=[(cx_id, uid, ts, False, True)])
    imp, le, defl = TS_FLAGS[ts]
    single = service in ("echo", "store", "n-delete")

    def handler(event):
        if special == "raise":
            raise scp.Raise("handler failure")
        if special == "abort":
            event.assoc.abort()
        st = status_value(sshape)
        if single:
            return st
        if special == "arity1":
            return (st,)
        if special == "arity3":
            return (st, ds_value(dshape), 1)
        if special == "scalar":
            return st
        return st, ds_value(dshape)

    evs = {"echo": evt.EVT_C_ECHO, "store": evt.EVT_C_STORE, "n-get": evt.EVT_N_GET, "n-set": evt.EVT_N_SET, "n-action": evt.EVT_N_ACTION, "n-create": evt.EVT_N_CREATE, "n-delete": evt.EVT_N_DELETE, "n-event-report": evt.EVT_N_EVENT_REPORT}
    assoc.bind(evs[service], handler)
    some = BytesIO(encode(scp.mk_ds(1, False), imp, le, defl))
    if service == "echo":
        req = dp.C_ECHO()
        req.AffectedSOPClassUID = uid
    elif service == "store":
        req = dp.C_STORE()
        req.AffectedSOPClassUID = uid
        req.AffectedSOPInstanceUID = "1.2.3.1"
        req.Priority = 2
        req.DataSet = some
    else:
        cls = {"n-get": dp.N_GET, "n-set": dp.N_SET, "n-action": dp.N_ACTION, "n-create": dp.N_CREATE, "n-delete": dp.N_DELETE, "n-event-report": dp.N_EVENT_REPORT}[service]
        req = cls()
        if service in ("n-create", "n-event-report"):
            req.AffectedSOPClassUID = uid
            req.AffectedSOPInstanceUID = "1.2.3.1"
        else:
            req.RequestedSOPClassUID = uid
            req.RequestedSOPInstanceUID = "1.2.3.1"
        if service == "n-get":
            req.AttributeIdentifierList = [0x00100010]
        if service == "n-set":
            req.ModificationList = some
        if service == "n-action":
            req.ActionTypeID = 1
            req.ActionInformation = some
        if service == "n-create":
            req.AttributeList = some
        if service == "n-event-report":
            req.EventTypeID = 1
            req.EventInformation = some
    req.MessageID = msg_id
    cx = build_context(uid, ts)
    cx.context_id = cx_id
    svc = uid_to_service_class(uid)(assoc)
    exc = None
    try:
        svc.SCP(req, cx)
    except Exception as e:  # noqa
        exc = f"{type(e).__name__}: {e}"
    rs = list(assoc.dimse.sent)
    statuses = [s.get("Status") for _, s in rs]
    c20, c21 = [], []
    if exc:
        c20.append(("scp-raised", f"SCP() raised {exc}"))
    aborted = special == "abort" or assoc.is_aborted
    if len(rs) != 1 and not (aborted and len(rs) == 0):
        c20.append((f"responses-x{len(rs)}", f"{len(rs)} responses sent (statuses {statuses}), exactly one expected"))
    for cxi, snap in rs:
        if cxi != cx_id:
            c20.append(("wrong-context", f"response on context {cxi}, request on {cx_id}"))
        if snap.get("MessageIDBeingRespondedTo") != msg_id:
            c20.append(("wrong-message-id", f"MessageIDBeingRespondedTo {snap.get('MessageIDBeingRespondedTo')}, request ID {msg_id}"))
        if snap.get("Status") is None or not refstatus.is_final(snap["Status"]):
            c20.append(("not-final", f"single response with status {snap.get('Status')}"))
    # ---- C21: status mapping ----
    if rs and not aborted:
        got = rs[0][1].get("Status")
        fam = "echo" if service == "echo" else ("store" if service == "store" else "n")
        want = None
        if special == "raise":
            want = EXPECTED_EXC[fam]
        elif special in ("arity1", "arity3", "scalar") and not single:
            want = EXPECTED_EXC[fam]  # a malformed handler result is a handler failure
        elif dshape == "notads" and sshape in ("ok", "warn", "ds_ok") and service != "n-delete":
            want = 0x0110  # a response dataset that cannot be encoded is a processing failure
        elif sshape in ("ok", "warn", "fail", "unknown"):
            want = status_value(sshape)
        elif sshape in ("ds_ok", "ds_fail_extra", "ds_fail_zero"):
            want = status_value(sshape).Status
        elif sshape == "ds_nostatus":
            want = 0x0000 if service == "echo" else 0xC001
        elif sshape in ("str", "none"):
            want = 0x0000 if service == "echo" else 0xC002
        elif sshape in ("neg", "big"):
            want = "failure"  # out of range: any failure status (C-ECHO: its documented fallback 0x0000 as for any invalid status)
        if want == "failure":
            if service == "echo" and got == 0x0000:
                pass
            elif got is None or refstatus.category(got) != refstatus.FAILURE:
                c21.append((f"status-{sshape}", f"handler returned status {status_value(sshape)!r}; response status {got!r} is not a failure"))
        elif want is not None and got != want:
            c21.append((f"status-{sshape}{'-' + special if special else ''}", f"handler returned {sshape}{'/' + special if special else ''}: response status {got!r}, documented {want:#06x}"))
        if sshape == "ds_fail_zero" and not special and service.startswith("n-"):
            snap = rs[0][1]
            if snap.get("ErrorID") != 0 or snap.get("ErrorComment") != "it failed":
                c21.append(("status-elements-not-copied", f"status dataset elements not copied: ErrorComment={snap.get('ErrorComment')!r} ErrorID={snap.get('ErrorID')!r} (handler supplied 'it failed', 0)"))
        if sshape == "ds_fail_extra" and not special:
            snap = rs[0][1]
            if snap.get("ErrorComment") != "it failed" or (service.startswith("n-") and snap.get("ErrorID") != 7):
                c21.append(("status-elements-not-copied", f"status dataset elements not copied: ErrorComment={snap.get('ErrorComment')!r} ErrorID={snap.get('ErrorID')!r}"))
        # response dataset
        kw = {"n-get": "AttributeList", "n-set": "AttributeList", "n-create": "AttributeList", "n-action": "ActionReply", "n-event-report": "EventReply"}.get(service)
        if kw and not special and dshape == "ds" and sshape in ("ok", "warn", "ds_ok"):
            v = rs[0][1].get(kw)
            if not v or v[0] != "bytes" or not v[1]:
                c21.append((f"dataset-missing-{sshape}", f"{kw} not sent although the handler supplied a dataset with status {sshape}"))
            else:
                try:
                    back = decode(BytesIO(v[1]), imp, le, defl)
                    same = back == ds_value("ds")
                except Exception as exc:  # noqa
                    same = False
                if not same:
                    c21.append(("dataset-differs", f"{kw} does not decode under the context's transfer syntax {ts} to the handler's dataset"))
    return c20, c21, statuses


def cases(quick):
    for service in ("echo", "store", "n-delete"):
        for s in STATUS_SHAPES:
            yield dict(service=service, sshape=s)
        for sp in ("raise", "abort"):
            yield dict(service=service, sshape="ok", special=sp)
    for service in ("n-get", "n-set", "n-action", "n-create", "n-event-report"):
        for s in STATUS_SHAPES:
            for d in DS_SHAPES:
                yield dict(service=service, sshape=s, dshape=d)
        for sp in SPECIAL:
            yield dict(service=service, sshape="ok", dshape="ds", special=sp)
    # response data sets under every uncompressed / deflated transfer syntax
    for service in ("n-get", "n-set", "n-action", "n-create", "n-event-report"):
        for ts in list(TS_FLAGS)[1:]:
            for s in ("ok", "warn", "ds_ok"):
                yield dict(service=service, sshape=s, dshape="ds", ts=ts)
    for service in ("echo", "n-get"):
        for mid, cx in ((0, 1), (65535, 255)):
            yield dict(service=service, sshape="ok", dshape="ds", msg_id=mid, cx_id=cx)


def run_all(ctx, which="c20"):
    viols = {}
    n = 0
    shapes = set()
    for c in cases(ctx.quick):
        n += 1
        c20, c21, statuses = eval_single(**c)
        shapes.add((c["service"], tuple(statuses)))
        for sym, t in c20 if which == "c20" else c21:
            k = f"{c['service']}:{sym}:{c.get('special') or c['sshape']}" + (f":{c['ts'].split('.')[-1] if c['ts'].endswith('.99') else c['ts'][-3:]}" if c.get("ts") else "")
            viols.setdefault(k, (f"{c}: {t}", c))
    return {"viols": viols, "n": n, "shapes": len(shapes)}
