"""C04 - the state machine vs PS3.8 Table 9-10 and the action tables.

TLC explores models/PS38.tla (independent transcription) and dumps the
complete labelled transition relation; every edge AND every non-edge
(13 states x 19 events x 2 roles x protocol-version ok/bad = 988 cases)
is replayed against the real StateMachine.do_action on a real, unstarted
DULServiceProvider with a recording low-level socket and ARTIM timer.
"""
from __future__ import annotations

import queue as _q
import struct

from vk import core, tlc

VERIFICATION = "1.2.840.10008.1.1"
IVRLE = "1.2.840.10008.1.2"


class FakeLow:
    """Lowest-level socket double under the real AssociationSocket."""

    def __init__(self, log):
        self.log = log
        self.closed = False

    def send(self, data):
        self.log.append(("send", bytes(data)))
        return len(data)

    def recv(self, n):
        return b""

    def settimeout(self, t):
        pass

    def connect(self, addr):
        self.log.append(("connect", addr))

    def getsockname(self):
        return ("127.0.0.1", 40000)

    def shutdown(self, how):
        self.log.append(("shutdown",))

    def close(self):
        self.closed = True
        self.log.append(("close",))

    def fileno(self):
        return -1

    def setsockopt(self, *a):
        pass


def _rq_primitive():
    from pynetdicom.pdu_primitives import A_ASSOCIATE, MaximumLengthNotification, ImplementationClassUIDNotification
    from pynetdicom.presentation import build_context
    from pynetdicom.transport import AddressInformation

    p = A_ASSOCIATE()
    p.application_context_name = "1.2.840.10008.3.1.1.1"
    p.calling_ae_title = "CALLING"
    p.called_ae_title = "CALLED"
    p.calling_presentation_address = AddressInformation("127.0.0.1", 40000)
    p.called_presentation_address = AddressInformation("127.0.0.1", 11112)
    cx = build_context(VERIFICATION, IVRLE)
    cx.context_id = 1
    p.presentation_context_definition_list = [cx]
    ml = MaximumLengthNotification()
    ml.maximum_length_received = 16382
    ic = ImplementationClassUIDNotification()
    ic.implementation_class_uid = "1.2.3.4"
    p.user_information = [ml, ic]
    return p


def _ac_primitive(result=0):
    from pynetdicom.presentation import build_context

    p = _rq_primitive()
    if result == 0:
        cx = build_context(VERIFICATION, IVRLE)
        cx.context_id = 1
        cx.result = 0
        p.presentation_context_definition_results_list = [cx]
        p.result = 0
    else:
        p.result = 1
        p.result_source = 1
        p.diagnostic = 1
    return p


class Clock:
    """Stands in for the `time` module inside pynetdicom.timer while one pair is observed."""

    def __init__(self):
        self.t = 5000.0

    def time(self):
        return self.t + 1.7e9

    def monotonic(self):
        return self.t

    def perf_counter(self):
        return self.t

    def sleep(self, d):
        self.t += d


# (a timer that has already expired stays expired whatever is done to it, so that history discriminates nothing)
ARTIM_PRIORS = ("unstarted", "running", "stopped")
WILL_FIRE = {"unstarted": False, "running": True, "stopped": False}


def build(state: int, event: int, role: str, pv: int, variant: str = "", artim_prior: str = "unstarted", clock=None):
    """Returns (assoc, log, recorder dict) prepared for do_action('Evt<event>')
    in state 'Sta<state>'."""
    from pynetdicom import evt
    from pynetdicom.association import Association
    from pynetdicom.pdu import A_ABORT_RQ, A_ASSOCIATE_AC, A_ASSOCIATE_RJ, A_ASSOCIATE_RQ, A_RELEASE_RP, A_RELEASE_RQ, P_DATA_TF
    from pynetdicom.pdu_primitives import A_ABORT, A_P_ABORT, A_RELEASE, P_DATA
    from pynetdicom.timer import Timer
    from pynetdicom.transport import AddressInformation, AssociationSocket, T_CONNECT
    from vk import stubs

    log: list = []
    ae = stubs.make_ae()
    assoc = Association(ae, role)
    dul = assoc.dul
    low = FakeLow(log)
    sock = AssociationSocket(assoc, client_socket=low)
    while True:
        try:
            dul.event_queue.get(False)
        except _q.Empty:
            break
    dul.socket = sock
    if state in (1, 4):
        sock._is_connected = False

    class RecTimer(Timer):
        def start(s):
            if not getattr(s, "_in_restart", False):
                log.append(("artim", "start"))
            super().start()

        def stop(s):
            log.append(("artim", "stop"))
            super().stop()

        def restart(s):
            log.append(("artim", "restart"))
            s._in_restart = True  # the real restart() may be implemented through start()
            try:
                super().restart()
            finally:
                s._in_restart = False

    dul.artim_timer = RecTimer(30)
    # the history of the ARTIM timer before this pair (real Timer operations on the fake clock)
    if artim_prior in ("running", "stopped", "expired"):
        Timer.start(dul.artim_timer)
    if artim_prior == "stopped":
        clock.t += 1.0
        Timer.stop(dul.artim_timer)
    if artim_prior == "expired":
        clock.t += 31.0
    assoc.requestor.address_info = AddressInformation("127.0.0.1", 40000)
    assoc.acceptor.address_info = AddressInformation("127.0.0.1", 11112)
    assoc.dimse.receive_primitive = lambda prim: log.append(("dimse", type(prim).__name__))
    orig_kill = dul.kill_dul
    dul.kill_dul = lambda: (log.append(("kill_dul",)), orig_kill())[1]
    for ev in (evt.EVT_CONN_CLOSE, evt.EVT_CONN_OPEN):
        assoc.bind(ev, lambda e: log.append(("evt", e.event.name)))
    fsm_log = []
    assoc.bind(evt.EVT_FSM_TRANSITION, lambda e: fsm_log.append((e.current_state, e.fsm_event, e.action, e.next_state)))

    e = event
    if e == 1:
        dul.to_provider_queue.put(_rq_primitive())
    elif e == 2:
        t = T_CONNECT(_rq_primitive())
        t.result = "Evt2"
        dul.to_provider_queue.put(t)
    elif e == 3:
        dul._recv_pdu.put(A_ASSOCIATE_AC(_ac_primitive(0)))
    elif e == 4:
        dul._recv_pdu.put(A_ASSOCIATE_RJ(_ac_primitive(1)))
    elif e == 6:
        pdu = A_ASSOCIATE_RQ(_rq_primitive())
        pdu.protocol_version = pv
        dul._recv_pdu.put(pdu)
    elif e == 7:
        dul.to_provider_queue.put(_ac_primitive(0))
    elif e == 8:
        dul.to_provider_queue.put(_ac_primitive(1))
    elif e == 9:
        p = P_DATA()
        p.presentation_data_value_list = [[1, b"\x03\x00\x00"]]
        dul.to_provider_queue.put(p)
    elif e == 10:
        p = P_DATA()
        p.presentation_data_value_list = [[1, b"\x03\x00\x00"]]
        dul._recv_pdu.put(P_DATA_TF(p))
    elif e == 11:
        dul.to_provider_queue.put(A_RELEASE())
    elif e == 12:
        dul._recv_pdu.put(A_RELEASE_RQ(A_RELEASE()))
    elif e == 13:
        r = A_RELEASE()
        r.result = "affirmative"
        dul._recv_pdu.put(A_RELEASE_RP(r))
    elif e == 14:
        r = A_RELEASE()
        r.result = "affirmative"
        dul.to_provider_queue.put(r)
    elif e == 15:
        if variant == "p-abort":
            a = A_P_ABORT()
            a.provider_reason = 0x02
        else:
            a = A_ABORT()
            a.abort_source = 0
        dul.to_provider_queue.put(a)
    elif e == 16:
        if variant == "provider":
            a = A_P_ABORT()
            a.provider_reason = 0x02
        else:
            a = A_ABORT()
            a.abort_source = 0
        dul._recv_pdu.put(A_ABORT_RQ(a))
    dul.state_machine.current_state = f"Sta{state}"
    return assoc, log, fsm_log


def stimulate(dul, e, pv=1, variant=""):
    """Queue what event `e` consumes (a received PDU or a request primitive) behind whatever the
    previous step left - used for the second step of two-step traces."""
    from pynetdicom.pdu import A_ABORT_RQ, A_ASSOCIATE_AC, A_ASSOCIATE_RJ, A_ASSOCIATE_RQ, A_RELEASE_RP, A_RELEASE_RQ, P_DATA_TF
    from pynetdicom.pdu_primitives import A_ABORT, A_P_ABORT, A_RELEASE, P_DATA
    from pynetdicom.transport import T_CONNECT

    def rel(result):
        r = A_RELEASE()
        if result:
            r.result = "affirmative"
        return r

    def pdata():
        p = P_DATA()
        p.presentation_data_value_list = [[1, b"\x03\x00\x00"]]
        return p

    def ab():
        if variant in ("p-abort", "provider"):
            a = A_P_ABORT()
            a.provider_reason = 0x02
        else:
            a = A_ABORT()
            a.abort_source = 0
        return a

    if e == 1:
        dul.to_provider_queue.put(_rq_primitive())
    elif e == 2:
        t = T_CONNECT(_rq_primitive())
        t.result = "Evt2"
        dul.to_provider_queue.put(t)
    elif e == 3:
        dul._recv_pdu.put(A_ASSOCIATE_AC(_ac_primitive(0)))
    elif e == 4:
        dul._recv_pdu.put(A_ASSOCIATE_RJ(_ac_primitive(1)))
    elif e == 6:
        pdu = A_ASSOCIATE_RQ(_rq_primitive())
        pdu.protocol_version = pv
        dul._recv_pdu.put(pdu)
    elif e == 7:
        dul.to_provider_queue.put(_ac_primitive(0))
    elif e == 8:
        dul.to_provider_queue.put(_ac_primitive(1))
    elif e == 9:
        dul.to_provider_queue.put(pdata())
    elif e == 10:
        dul._recv_pdu.put(P_DATA_TF(pdata()))
    elif e == 11:
        dul.to_provider_queue.put(rel(False))
    elif e == 12:
        dul._recv_pdu.put(A_RELEASE_RQ(A_RELEASE()))
    elif e == 13:
        dul._recv_pdu.put(A_RELEASE_RP(rel(True)))
    elif e == 14:
        dul.to_provider_queue.put(rel(True))
    elif e == 15:
        dul.to_provider_queue.put(ab())
    elif e == 16:
        dul._recv_pdu.put(A_ABORT_RQ(ab()))


PDU_NAMES = {1: "A-ASSOCIATE-RQ", 2: "A-ASSOCIATE-AC", 3: "A-ASSOCIATE-RJ", 4: "P-DATA-TF", 5: "A-RELEASE-RQ", 6: "A-RELEASE-RP", 7: "A-ABORT"}


def observe(state, event, role, pv, variant="", artim_prior="unstarted", second=None):
    """Run one pair on the real code; return observation dict."""
    import pynetdicom.timer as tmod
    from pynetdicom.fsm import InvalidEventError
    from pynetdicom.pdu_primitives import A_ABORT, A_ASSOCIATE, A_P_ABORT, A_RELEASE

    clock = Clock()
    old_time = tmod.time
    tmod.time = clock
    try:
        assoc, log, fsm_log = build(state, event, role, pv, variant, artim_prior, clock)
        dul = assoc.dul
        obs = {"raised": None}
        try:
            dul.state_machine.do_action(f"Evt{event}")
        except InvalidEventError:
            obs["raised"] = "InvalidEventError"
        except Exception as exc:  # noqa
            obs["raised"] = f"{type(exc).__name__}: {exc}"
        if second is not None and not obs["raised"]:
            # two-step trace: keep every queue and the timer as the first action left them, forget the
            # first action's outputs, feed the second event and observe the second action only
            while True:
                try:
                    dul.to_user_queue.get(False)
                except _q.Empty:
                    break
            del log[:]
            del fsm_log[:]
            obs["first_next"] = int(dul.state_machine.current_state[3:])
            stimulate(dul, second[0], 1, second[1])
            try:
                dul.state_machine.do_action(f"Evt{second[0]}")
            except InvalidEventError:
                obs["raised"] = "InvalidEventError"
            except Exception as exc:  # noqa
                obs["raised"] = f"{type(exc).__name__}: {exc}"
        # what the action did to ARTIM is judged by what the timer then does: will it expire?
        clock.t += 31.0
        obs["artim_will_fire"] = bool(dul.artim_timer.expired)
    finally:
        tmod.time = old_time
    obs["next"] = int(dul.state_machine.current_state[3:])
    sent = [x[1] for x in log if x[0] == "send"]
    obs["pdus"] = []
    for b in sent:
        t = b[0]
        name = PDU_NAMES.get(t, f"?{t}")
        (ln,) = struct.unpack(">L", b[2:6])
        d = {"pdu": name, "len_ok": ln == len(b) - 6}
        if t == 7:
            d["src"] = b[8]
            d["reason"] = b[9]
        if t == 3:
            d["result"], d["src"], d["reason"] = b[7], b[8], b[9]
        obs["pdus"].append(d)
    inds = []
    while True:
        try:
            p = dul.to_user_queue.get(False)
        except _q.Empty:
            break
        if isinstance(p, A_ASSOCIATE):
            if p.result is None:
                inds.append("assoc-indication")
            elif p.result == 0:
                inds.append("assoc-confirm-accept")
            else:
                inds.append("assoc-confirm-reject")
        elif isinstance(p, A_RELEASE):
            inds.append("release-indication" if p.result is None else "release-confirm")
        elif isinstance(p, A_ABORT):
            inds.append("a-abort-indication")
        elif isinstance(p, A_P_ABORT):
            inds.append("p-abort-indication")
        else:
            inds.append(type(p).__name__)
    inds += ["p-data" for x in log if x[0] == "dimse"]
    obs["inds"] = inds
    obs["artim"] = [x[1] for x in log if x[0] == "artim"]
    obs["connect"] = sum(1 for x in log if x[0] == "connect")
    obs["closed"] = any(x[0] == "close" for x in log)
    obs["kill_dul"] = any(x[0] == "kill_dul" for x in log)
    obs["conn_close_evt"] = sum(1 for x in log if x == ("evt", "EVT_CONN_CLOSE"))
    obs["fsm_evt"] = fsm_log
    # a T_CONNECT left by AE-1 is the connect *result* (delivered as Evt2/Evt17), not a leftover
    obs["left_provider_q"] = sum(1 for x in list(dul.to_provider_queue.queue) if type(x).__name__ != "T_CONNECT")
    # the received PDU this event stands for must have been consumed: a PDU left at the head of the
    # queue would be taken for the *next* received PDU by a later action
    obs["left_recv_pdu"] = [type(x).__name__ for x in list(dul._recv_pdu.queue)]
    return obs


def expected_from_model(nodes, edges):
    """(state, role, event) -> list of (pv, next, action, fx)"""
    exp = {}
    for src, dst, ev in edges:
        s, d = nodes[src], nodes[dst]
        key = (s["state"], s["role"], ev)
        val = (d["pvok"], d["state"], d["lastAct"], tuple(sorted(d["fx"].items())))
        exp.setdefault(key, set()).add(val)
    return exp


def compare(state, role, ev, pv_ok, model, obs, variant=""):
    """model: (next, action, fx dict) or None for a non-edge.  Returns list of
    mismatch strings."""
    bad = []
    if model is None:
        if obs["raised"] != "InvalidEventError":
            bad.append(f"pair has no table entry but do_action did not raise InvalidEventError (raised={obs['raised']})")
        if obs["next"] != state:
            bad.append(f"state changed to {obs['next']} on an undefined pair")
        if obs["pdus"] or obs["inds"] or obs["artim"] or obs["closed"] or obs["connect"]:
            bad.append(f"side effects on an undefined pair: {obs}")
        return bad
    nxt, action, fx = model
    if obs["raised"]:
        bad.append(f"table prescribes {action} but do_action raised {obs['raised']}")
        return bad
    if obs["next"] != nxt:
        bad.append(f"{action}: next state Sta{obs['next']}, PS3.8 says Sta{nxt}")
    if obs["fsm_evt"] and obs["fsm_evt"][0][2] != action:
        bad.append(f"performed {obs['fsm_evt'][0][2]}, PS3.8 says {action}")
    # PDU
    want_pdu = [] if fx["pdu"] == "none" else [fx["pdu"]]
    got_pdu = [p["pdu"] for p in obs["pdus"]]
    if got_pdu != want_pdu:
        bad.append(f"{action}: PDUs sent {got_pdu}, PS3.8 says {want_pdu}")
    for p in obs["pdus"]:
        if not p["len_ok"]:
            bad.append(f"{action}: PDU length field wrong")
        if p["pdu"] == "A-ABORT":
            if fx["src"] == "user" and variant != "p-abort" and p["src"] != 0:
                bad.append(f"{action}: A-ABORT source {p['src']}, PS3.8 says 0 (service-user)")
            if fx["src"] == "user" and variant == "p-abort" and p["src"] != 2:
                bad.append(f"{action}: A-P-ABORT request encoded with source {p['src']}")
            if fx["src"] == "provider" and p["src"] != 2:
                bad.append(f"{action}: A-ABORT source {p['src']}, PS3.8 says 2 (service-provider)")
            if p["src"] not in (0, 2):
                bad.append(f"{action}: A-ABORT source {p['src']} undefined")
        if p["pdu"] == "A-ASSOCIATE-RJ" and fx["src"] == "acse-provider-protocol-version":
            if (p["src"], p["reason"]) != (2, 2) or p["result"] not in (1, 2):
                bad.append(f"{action}: RJ result/source/reason {(p['result'], p['src'], p['reason'])}, PS3.8 says source 2 reason 2")
    # indication
    want_ind = [] if fx["ind"] == "none" else [fx["ind"]]
    if fx["ind"] == "abort-indication":
        want_ind = ["p-abort-indication" if variant == "provider" else "a-abort-indication"]
    if obs["inds"] != want_ind:
        bad.append(f"{action}: indications {obs['inds']}, PS3.8 says {want_ind}")
    # ARTIM  (restart == start: both (re)start the timer from zero)
    got_artim = ["start" if a == "restart" else a for a in obs["artim"]]
    want_artim = {"none": [], "start": ["start"], "stop": ["stop"], "stopstart": ["stop", "start"]}[fx["artim"]]
    if got_artim != want_artim:
        bad.append(f"{action}: ARTIM operations {obs['artim']}, PS3.8 says {want_artim}")
    prior = obs.get("artim_prior", "unstarted")
    want_fire = {"none": WILL_FIRE.get(prior), "start": True, "stop": False, "stopstart": True}[fx["artim"]]
    if want_fire is not None and obs["artim_will_fire"] != want_fire:
        bad.append(f"{action}: ARTIM state after the action with the timer {prior} before: {'will expire' if obs['artim_will_fire'] else 'will never expire'}, PS3.8 ({fx['artim']}) says it {'must be running' if want_fire else 'must not be running'}")
    # transport
    if fx["tr"] == "connect":
        if obs["connect"] != 1 or obs["closed"]:
            bad.append(f"{action}: transport connect expected, got connect={obs['connect']} closed={obs['closed']}")
    elif fx["tr"] == "close":
        if not obs["closed"] or obs["connect"]:
            bad.append(f"{action}: transport connection must be closed, closed={obs['closed']}")
    elif fx["tr"] == "closed-by-peer":
        if obs["connect"]:
            bad.append(f"{action}: unexpected connect")
    else:
        if obs["closed"] or obs["connect"]:
            bad.append(f"{action}: transport touched (closed={obs['closed']} connect={obs['connect']}), PS3.8 lists no transport effect")
    # leaving for idle must stop the provider reactor
    if nxt == 1 and not obs["kill_dul"]:
        bad.append(f"{action}: moved to Sta1 without stopping the provider reactor")
    if nxt != 1 and obs["kill_dul"]:
        bad.append(f"{action}: provider reactor stopped although next state is Sta{nxt}")
    # a consumed-event primitive left at the head of the queue of a *live*
    # provider would raise the same event again on the next loop
    if obs["left_provider_q"] and nxt != 1:
        bad.append(f"{action}: request primitive left on the provider queue")
    return bad


def run(ctx: core.Ctx) -> core.Result:
    viol = []
    out, dot, st_edges = tlc.run_tlc("PS38_edges.cfg", dump=True)
    if not st_edges.get("ok") or not dot:
        raise RuntimeError("TLC failed on PS38_edges.cfg:\n" + out[-3000:])
    out2, _, st_san = tlc.run_tlc("PS38_sanity.cfg", dump=True)
    if not st_san.get("ok"):
        raise RuntimeError("TLC sanity invariants failed:\n" + out2[-3000:])
    nodes, edges = tlc.parse_dot(dot)
    exp = expected_from_model(nodes, edges)
    # graph sanity on the role-consistent model: every state reachable from
    # Sta1 and Sta1 reachable from every state
    _, dot2, _ = tlc.run_tlc("PS38_sanity.cfg", dump=True)
    n2, e2 = tlc.parse_dot(dot2)
    for role in ("requestor", "acceptor"):
        fwd = {}
        for s, d, _ in e2:
            if n2[s]["role"] == role:
                fwd.setdefault(n2[s]["state"], set()).add(n2[d]["state"])
        reach = {1}
        todo = [1]
        while todo:
            x = todo.pop()
            for y in fwd.get(x, ()):
                if y not in reach:
                    reach.add(y)
                    todo.append(y)
        owned = {"requestor": {1, 4, 5, 6, 7, 8, 9, 11, 13}, "acceptor": {1, 2, 3, 6, 7, 8, 10, 12, 13}}[role]
        if reach != owned:
            raise RuntimeError(f"model sanity: states reachable as {role} = {sorted(reach)}, expected {sorted(owned)}")
        for s0 in reach:
            seen = {s0}
            todo = [s0]
            while todo:
                x = todo.pop()
                for y in fwd.get(x, ()):
                    if y not in seen:
                        seen.add(y)
                        todo.append(y)
            if 1 not in seen:
                raise RuntimeError(f"model sanity: Sta1 not reachable from Sta{s0} as {role}")

    n_cases = n_edges = n_non = n_obs = 0
    vkeys = set()
    samples = []
    keys_seen = set()
    for state in range(1, 14):
        for ev in range(1, 20):
            for role in ("requestor", "acceptor"):
                for pv_ok in (True, False):
                    n_cases += 1
                    outcomes = exp.get((state, role, ev), set())
                    # the outcome for this pv choice (only AE-6 depends on it)
                    sel = [o for o in outcomes if o[0] == pv_ok] or [o for o in outcomes]
                    model = None
                    if outcomes:
                        o = sel[0]
                        model = (o[1], o[2], dict(o[3]))
                        n_edges += 1
                    else:
                        n_non += 1
                    variants = [""]
                    if ev == 15 and model:
                        variants = ["", "p-abort"]
                    if ev == 16 and model:
                        variants = ["", "provider"]
                    for variant in variants:
                        for prior in ARTIM_PRIORS if model else ("unstarted",):
                            n_obs += 1
                            obs = observe(state, ev, role, 0x0001 if pv_ok else 0x0002, variant, prior)
                            obs["artim_prior"] = prior
                            bad = compare(state, role, ev, pv_ok, model, obs, variant)
                            keys_seen.add((state, ev, model[1] if model else None))
                            for b in bad:
                                act = model[1] if model else "none"
                                k = f"Sta{state}-Evt{ev}-{act}-{role if act in ('AR-8',) else 'any'}{'-' + variant if variant else ''}:{b.split(':')[0][:40]}" + (f":artim-{prior}" if "ARTIM state after" in b else "")
                                if k not in vkeys:
                                    vkeys.add(k)
                                    viol.append(core.Violation(k, f"Sta{state} + Evt{ev} ({role}, pv {'ok' if pv_ok else 'bad'}{', ' + variant if variant else ''}): {b}", {"state": state, "event": ev, "role": role, "pv_ok": pv_ok, "variant": variant, "artim_prior": prior}))
                    if (state, ev) in ((2, 6), (7, 12), (6, 13), (1, 3)) and role == "acceptor":
                        samples.append({"state": state, "event": ev, "role": role, "pv_ok": pv_ok, "model": model, "observed": {k: obs[k] for k in ("raised", "next", "pdus", "inds", "artim", "closed")}})
    # two-step traces of the model: every edge followed by every edge leaving its target state, on the
    # same real provider object (queues and timer as the first action left them); the second action
    # is compared with the model exactly like a single edge
    n_two = 0
    for state in range(1, 14):
        for ev in range(1, 20):
            for role in ("requestor", "acceptor"):
                o1 = [o for o in exp.get((state, role, ev), set()) if o[0] is True]
                if not o1 or o1[0][1] == 1:
                    continue
                s1 = o1[0][1]
                for ev2 in range(1, 20):
                    o2 = [o for o in exp.get((s1, role, ev2), set()) if o[0] is True]
                    if not o2:
                        continue
                    model2 = (o2[0][1], o2[0][2], dict(o2[0][3]))
                    for variant in {15: ["", "p-abort"], 16: ["", "provider"]}.get(ev2, [""]):
                        n_two += 1
                        obs = observe(state, ev, role, 0x0001, "", "unstarted", second=(ev2, variant))
                        if obs.get("first_next") != s1:
                            continue  # the first step itself is judged by the single-edge replay
                        obs["artim_prior"] = "after-first-step"
                        for b in compare(s1, role, ev2, True, model2, obs, variant):
                            k = f"Sta{state}-Evt{ev}-then-Evt{ev2}-{model2[1]}{'-' + variant if variant else ''}:{b.split(':')[0][:40]}"
                            if k not in vkeys:
                                vkeys.add(k)
                                viol.append(core.Violation(k, f"Sta{state} + Evt{ev} then Evt{ev2} ({role}{', ' + variant if variant else ''}): {b}", {"state": state, "event": ev, "role": role, "pv_ok": True, "variant": "", "second": [ev2, variant]}))
    # extra: protocol version with bit 0 set plus other bits must be accepted (PS3.8 9.3.2)
    obs = observe(2, 6, "acceptor", 0x0003)
    o = [x for x in exp[(2, "acceptor", 6)] if x[0] is True][0]
    bad = compare(2, "acceptor", 6, True, (o[1], o[2], dict(o[3])), obs)
    for b in bad:
        viol.append(core.Violation("Sta2-Evt6-AE-6-pv0003", f"Sta2 + Evt6 with protocol-version 0x0003 (bit 0 set): {b}", {"state": 2, "event": 6, "role": "acceptor", "pv": 3}))
    cov = {
        "states": st_edges["distinct"] + st_san["distinct"],
        "transitions": len(edges) + len(e2),
        "traces_validated_against_impl": n_cases,
        "model_states_edge_dump": st_edges["distinct"],
        "model_states_sanity_run": st_san["distinct"],
        "model_edges_distinct": len(edges),
        "edges_replayed": n_edges,
        "observations_on_real_code": n_obs + n_two,
        "two_step_traces_replayed": n_two,
        "artim_histories_per_edge": list(ARTIM_PRIORS),
        "non_edges_replayed": n_non,
        "table_cells_defined_in_model": len({(s, e) for (s, r, e) in exp}),
        "exhaustive": True,
        "samples": samples[:6],
        "tlc_invariants": ["TypeOK", "RoleInv", "ArtimInv", "IdleClosed", "ASSUME |defined cells| = 123", "python: per-role reachability from Sta1 and back to Sta1"],
    }
    return core.Result(
        "model_checking",
        cov,
        viol,
        assumptions=[
            "models/PS38.tla is a faithful transcription of PS3.8 Tables 9-6..9-10 (DESIGN.md A.3)",
            "AA-4/AA-5/AR-5 (transport already closed by the peer): a local socket shutdown is allowed, not required",
            "the effect of an action on ARTIM is judged by whether the real Timer subsequently expires, from three timer histories (never started, running, stopped)",
            "reason/diagnostic fields the standard leaves open are not constrained",
        ],
    )


def replay(ctx, data):
    obs = observe(data["state"], data["event"], data["role"], data.get("pv", 1 if data.get("pv_ok", True) else 2), data.get("variant", ""), data.get("artim_prior", "unstarted"), second=tuple(data["second"]) if data.get("second") else None)
    print(obs)
    return 0
