"""C20 - each service request gets exactly one final response with its
message ID.

Bounded-exhaustive enumeration of handler behaviours through the real SCP
implementations (C-FIND, C-GET, C-MOVE generators: every yield sequence up to
a length over an alphabet of valid / invalid / mistyped items, exceptions
before, between and after yields, announced sub-operation counts, C-STORE
sub-operation outcomes, loss of the sub-association; C-ECHO, C-STORE and all
DIMSE-N handlers: every return shape) with a recording DIMSE provider.
"""
from __future__ import annotations

import itertools

from vk import core, scp

FIND_ALPHA = ["P_ok", "pend_none", "pend_bad", "pend_warn", "pend_empty", "success", "warning_b001", "failure", "failure_c", "cancel", "unknown", "gen_warning", "status_ds_pending", "status_ds_fail", "status_ds_nostatus", "status_str", "arity1", "arity3", "scalar", "oor_big", "oor_neg"]
GM_ALPHA = ["oor_big","P_ok", "P_warn", "P_fail", "P_exc", "P_unknown", "P_nostatus", "pend_none", "pend_bad", "pend_warn", "success", "warning_b000", "failure", "cancel", "unknown", "status_ds_pending", "status_ds_fail", "status_ds_nostatus", "arity1", "scalar"]


def gen_cases(quick):
    L = 2 if quick else 3
    for kind, alpha in (("find", FIND_ALPHA), ("get", GM_ALPHA), ("move", GM_ALPHA)):
        for pre in ("raise", "none", "list"):
            yield dict(kind=kind, seq=("P_ok", "success") if pre == "list" else (), pre=pre)
        for n in range(L + 1):
            for seq in itertools.product(alpha, repeat=n):
                yield dict(kind=kind, seq=seq)
                if n <= 2:
                    for ra in range(n + 1):
                        yield dict(kind=kind, seq=seq, raise_at=ra)
                    for ab in range(n):
                        yield dict(kind=kind, seq=seq, abort_at=ab)
                if kind != "find" and n <= 2:
                    nv = sum(1 for s in seq if s in scp.SUBOP)
                    for cnt in (0, nv + 1, "x", 65536, -1, None.__class__):
                        if cnt is None.__class__:
                            continue
                        yield dict(kind=kind, seq=seq, count=cnt)
                if kind == "move" and n <= 2:
                    for dest in ("none", "bad", "kwargs"):
                        yield dict(kind=kind, seq=seq, dest=dest)
                    for la in (0, 1):
                        yield dict(kind=kind, seq=seq, lose_after=la)
        for mid, cx in ((0, 1), (65535, 255), (1, 3)):
            yield dict(kind=kind, seq=("P_ok", "P_ok"), msg_id=mid, cx_id=cx)


def eval_case(c):
    rec = scp.run_qr(**c)
    allow = c.get("abort_at") is not None or rec["aborted"]
    bad = scp.oracle_c20(c["kind"], rec, allow_missing_final=allow)
    return bad, rec


def _key(c, sym, rec):
    """Class of the behaviour: service, symptom, the last item the handler
    yielded before things went wrong (the culprit) and the non-default knobs."""
    culprit = rec["log"][-1] if rec["log"] else "start"
    if c.get("pre"):
        culprit = f"pre={c['pre']}"
    return f"{c['kind']}:{sym}:{culprit}"


def _chunk(cases):
    out = {}
    shapes = set()
    for c in cases:
        bad, rec = eval_case(c)
        shapes.add(tuple(s[1].get("Status") for s in rec["responses"]))
        for sym, t in bad:
            k = _key(c, sym, rec)
            if k not in out:
                out[k] = (f"{c}: {t}", {k2: (list(v) if isinstance(v, tuple) else v) for k2, v in c.items()})
    return len(cases), out, shapes


def run(ctx: core.Ctx) -> core.Result:
    from vk.checks import c20n

    cases = list(gen_cases(ctx.quick))
    n = core.NPROC * 4
    res = core.pmap(_chunk, [(cases[i::n],) for i in range(n) if cases[i::n]], seed=ctx.seed)
    viol, seen, tot, shapes = [], set(), 0, set()
    for cn, bad, sh in res:
        tot += cn
        shapes |= sh
        for k, (t, rp) in bad.items():
            if k not in seen:
                seen.add(k)
                viol.append(core.Violation(k, t, {"qr": rp}))
    nres = c20n.run_all(ctx)
    for k, (t, rp) in nres["viols"].items():
        viol.append(core.Violation(k, t, {"single": rp}))
    idx = ctx.sample_indices(len(cases), 5)
    cov = {
        "evaluations": tot + nres["n"],
        "distinct_nontrivial": len(shapes) + nres["shapes"],
        "rule": f"C-FIND/GET/MOVE: all yield sequences up to length {2 if ctx.quick else 3} over alphabets of {len(FIND_ALPHA)}/{len(GM_ALPHA)} items, with raise/abort at every position (length <= 2), announced counts {{0, n+1, 'x', 65536, -1}}, destinations and sub-association loss for C-MOVE, handler raising / returning None / a list; C-ECHO, C-STORE, 6 DIMSE-N services: every return shape of an alphabet; distinct_nontrivial = distinct response-status sequences observed",
        "qr_cases": tot,
        "single_response_cases": nres["n"],
        "exhaustive": True,
        "samples": [{k: (list(v) if isinstance(v, tuple) else v) for k, v in cases[i].items()} for i in idx],
    }
    return core.Result("exploration", cov, viol, assumptions=["DIMSE provider is a recording double; C-STORE sub-operations and the C-MOVE sub-association are scripted", "final = status category other than Pending, 0xB001 excepted for C-FIND (vk/ref/status.py)"])


def replay(ctx, data):
    if "qr" in data:
        c = {k: (tuple(v) if isinstance(v, list) else v) for k, v in data["qr"].items()}
        bad, rec = eval_case(c)
        print([(cx, hex(s.get("Status") or 0), s.get("MessageIDBeingRespondedTo")) for cx, s in rec["responses"]], rec["exception"])
        for sym, t in bad:
            print("VIOLATED:", sym, t)
    else:
        from vk.checks import c20n

        print(c20n.eval_single(**data["single"]))
    return 0
