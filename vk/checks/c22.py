"""C22 - C-GET and C-MOVE sub-operation counters stay consistent.

All handler yield sequences up to a length over {valid dataset x sub-operation
outcome (success, warning, failure, exception, unknown status, no status),
None, non-dataset, final statuses of every category}, announced counts N in
{1,2,3} (more or fewer results than announced), through the real _get_scp /
_move_scp with scripted C-STORE sub-operations.
"""
from __future__ import annotations

import itertools
from io import BytesIO

from vk import core, scp
from vk.ref import status as refstatus

ALPHA = ["P_ok", "P_warn", "P_fail", "P_exc", "P_unknown", "P_nostatus", "pend_none", "pend_bad", "success", "warning_b000", "failure_c", "cancel"]
FAILING = {"P_fail", "P_exc", "P_unknown", "P_nostatus"}


def oracle(kind, c, rec):
    from pynetdicom.dsutils import decode

    bad = []
    N = c["count"]
    rs = rec["responses"]
    prev = None
    g = lambda s, k: s.get(k) if s.get(k) is not None else 0
    for i, (_, s) in enumerate(rs):
        st = s.get("Status")
        if st is None:
            continue
        rem, comp, fail, warn = g(s, "NumberOfRemainingSuboperations"), g(s, "NumberOfCompletedSuboperations"), g(s, "NumberOfFailedSuboperations"), g(s, "NumberOfWarningSuboperations")
        if not refstatus.is_final(st):
            if rem + comp + fail + warn != N:
                bad.append(("pending-sum", f"Pending response {i}: remaining {rem} + completed {comp} + failed {fail} + warning {warn} != announced {N}"))
            if prev is not None:
                if rem > prev[0]:
                    bad.append(("remaining-increased", f"response {i}: remaining went {prev[0]} -> {rem}"))
                if comp < prev[1] or fail < prev[2] or warn < prev[3]:
                    bad.append(("counter-decreased", f"response {i}: (completed, failed, warning) went {prev[1:]} -> {(comp, fail, warn)}"))
            prev = (rem, comp, fail, warn)
        else:
            if comp + fail + warn > N:
                bad.append(("final-sum", f"final response: completed {comp} + failed {fail} + warning {warn} > announced {N}"))
            if prev is not None and (comp < prev[1] or fail < prev[2] or warn < prev[3]):
                bad.append(("final-counter-decreased", f"final (completed, failed, warning) {(comp, fail, warn)} below last Pending {prev[1:]}"))
            # instances whose sub-operation failed, in order, among the items consumed
            consumed = rec["log"]
            performed = len(rec["store"].calls)
            idx_valid = [i2 for i2, n in enumerate(consumed) if n in scp.SUBOP][:performed]
            want_failed = [f"1.2.3.{i2}" for i2 in idx_valid if consumed[i2] in FAILING]
            ident = s.get("Identifier")
            got_failed = None
            if ident and ident[0] == "bytes" and ident[1]:
                ds = decode(BytesIO(ident[1]), True, True)
                v = ds.get("FailedSOPInstanceUIDList", [])
                got_failed = [str(x) for x in (v if isinstance(v, (list, tuple)) or hasattr(v, "__iter__") and not isinstance(v, str) else [v])]
                got_failed = [x for x in got_failed if x]
            natural = len(consumed) == len(c["seq"]) and not any(n in ("success", "warning_b000", "failure_c", "cancel") for n in consumed) and c.get("raise_at") is None
            nf = sum(1 for i2 in idx_valid if consumed[i2] in FAILING)
            nw = sum(1 for i2 in idx_valid if consumed[i2] == "P_warn")
            if got_failed is not None and sorted(got_failed) != sorted(want_failed) and refstatus.category(st) != refstatus.CANCEL:
                bad.append(("failed-list", f"FailedSOPInstanceUIDList {got_failed}, instances whose sub-operation failed {want_failed}"))
            if got_failed is None and want_failed and st != 0x0000:
                bad.append(("failed-list-missing", f"final 0x{st:04X} carries no FailedSOPInstanceUIDList although {want_failed} failed"))
            if natural or (consumed and consumed[-1] == "success"):
                if nf == 0 and nw == 0 and "pend_bad" not in consumed:
                    want = 0x0000
                elif natural and nf == N:
                    want = 0xA702
                else:
                    want = 0xB000 if (nf or nw or "pend_bad" in consumed) else 0x0000
                if st != want and not (want == 0xB000 and st == 0xA702 and nf + consumed.count("pend_bad") == N):
                    bad.append((f"final-status-{st:04X}-vs-{want:04X}", f"final status 0x{st:04X}, expected 0x{want:04X} with {nf} failed / {nw} warning of {N}"))
    return bad


def gen_cases(quick):
    L = 3 if quick else 4
    for kind in ("get", "move"):
        for N in (1, 2, 3):
            for n in range(0, min(L, N + 2) + 1):
                for seq in itertools.product(ALPHA, repeat=n):
                    # finals only make sense at the end
                    if any(s in ("success", "warning_b000", "failure_c", "cancel") for s in seq[:-1]):
                        continue
                    yield dict(kind=kind, seq=seq, count=N)


def _chunk(cases):
    out = {}
    shapes = set()
    for c in cases:
        rec = scp.run_qr(**c)
        shapes.add(tuple((s.get("Status"), s.get("NumberOfRemainingSuboperations"), s.get("NumberOfFailedSuboperations")) for _, s in rec["responses"]))
        for sym, t in oracle(c["kind"], c, rec):
            culprit = next((x for x in ("pend_bad", "P_unknown", "P_nostatus", "pend_none") if x in rec["log"]), "plain")
            k = f"{c['kind']}:{sym}:{culprit}"
            out.setdefault(k, (f"{c}: {t}", {a: (list(b) if isinstance(b, tuple) else b) for a, b in c.items()}))
    return len(cases), out, shapes


def run(ctx: core.Ctx) -> core.Result:
    cases = list(gen_cases(ctx.quick))
    n = core.NPROC * 4
    res = core.pmap(_chunk, [(cases[i::n],) for i in range(n) if cases[i::n]], seed=ctx.seed)
    viol, seen, tot, shapes = [], set(), 0, set()
    for cn, bad, sh in res:
        tot += cn
        shapes |= sh
        for k, (t, rp) in bad.items():
            if k not in seen:
                seen.add(k)
                viol.append(core.Violation(k, t, rp))
    idx = ctx.sample_indices(len(cases), 5)
    cov = {
        "evaluations": tot,
        "distinct_nontrivial": len(shapes),
        "rule": f"C-GET and C-MOVE, announced N in {{1,2,3}}, every yield sequence of length <= min({3 if ctx.quick else 4}, N+2) over {len(ALPHA)} items (final statuses only in last position); distinct_nontrivial = distinct (status, remaining, failed) response sequences observed",
        "exhaustive": True,
        "samples": [{a: (list(b) if isinstance(b, tuple) else b) for a, b in cases[i].items()} for i in idx],
    }
    return core.Result("exploration", cov, viol, assumptions=["sub-operations are scripted stubs of send_c_store", "a sub-operation counts as failed when its C-STORE raises or returns a failure / unknown / missing status"])


def replay(ctx, data):
    c = {k: (tuple(v) if isinstance(v, list) else v) for k, v in data.items()}
    rec = scp.run_qr(**c)
    for _, s in rec["responses"]:
        print(hex(s.get("Status") or 0), [s.get(k) for k in ("NumberOfRemainingSuboperations", "NumberOfCompletedSuboperations", "NumberOfFailedSuboperations", "NumberOfWarningSuboperations")])
    for sym, t in oracle(c["kind"], c, rec):
        print("VIOLATED:", sym, t)
    return 0
