"""C29 - qrscp returns exactly the entities the PS3.4 matching rules select.

Bounded-exhaustive enumeration: every database of <= 3 instances out of a
8-instance universe (2+ patients, studies, series; numeric keys incl. 0; values chosen to separate
literal characters from SQL wildcards and upper from lower case) plus the full
universe; identifiers at every query level with every matching type per key
(absent, universal, single value, '*' / '?' wildcards, UID list, the three
range forms), valid and invalid hierarchies, both information models, C-FIND
and the C-GET / C-MOVE key restriction; through the real qrscp search() and
handle_find() against a SQLite file, compared with vk/ref/match.py.
"""
from __future__ import annotations

import itertools
import os
import tempfile
import types

from vk import core
from vk.ref import match as ref

PR_FIND = "1.2.840.10008.5.1.4.1.2.1.1"
PR_MOVE = "1.2.840.10008.5.1.4.1.2.1.2"
PR_GET = "1.2.840.10008.5.1.4.1.2.1.3"
SR_FIND = "1.2.840.10008.5.1.4.1.2.2.1"

UNIVERSE = [
    dict(PatientID="1", PatientName="A^B", StudyInstanceUID="1.1", StudyDate="20200101", AccessionNumber="ACC1", SeriesInstanceUID="1.1.1", Modality="CT", SeriesNumber="1", SOPInstanceUID="1.1.1.1", InstanceNumber="1"),
    dict(PatientID="1", PatientName="A^B", StudyInstanceUID="1.1", StudyDate="20200101", AccessionNumber="ACC1", SeriesInstanceUID="1.1.1", Modality="CT", SeriesNumber="1", SOPInstanceUID="1.1.1.2", InstanceNumber="0"),
    dict(PatientID="1", PatientName="A^B", StudyInstanceUID="1.1", StudyDate="20200101", AccessionNumber="ACC1", SeriesInstanceUID="1.1.2", Modality="MR", SeriesNumber="0", SOPInstanceUID="1.1.2.1", InstanceNumber="1"),
    dict(PatientID="1", PatientName="A^B", StudyInstanceUID="1.2", StudyDate="20200102", AccessionNumber="A_C1", SeriesInstanceUID="1.2.1", Modality="MR", SeriesNumber="1", SOPInstanceUID="1.2.1.1", InstanceNumber="1"),
    dict(PatientID="2", PatientName="a^b", StudyInstanceUID="2.1", StudyDate="20200101", AccessionNumber="A%C1", SeriesInstanceUID="2.1.1", Modality="CT", SeriesNumber="2", SOPInstanceUID="2.1.1.1", InstanceNumber="1"),
    dict(PatientID="A_", PatientName="AB^", StudyInstanceUID="3.1", StudyDate="20200103", AccessionNumber="ABC1", SeriesInstanceUID="3.1.1", Modality="CT", SeriesNumber="1", SOPInstanceUID="3.1.1.1", InstanceNumber="1"),
    dict(PatientID="AB", PatientName="A*x^", StudyInstanceUID="4.1", StudyDate="20191231", AccessionNumber="abc1", SeriesInstanceUID="4.1.1", Modality="US", SeriesNumber="3", SOPInstanceUID="4.1.1.1", InstanceNumber="1"),
    dict(PatientID="ab", PatientName="X^Y", StudyInstanceUID="5.1", StudyDate="20200102", AccessionNumber="A1", SeriesInstanceUID="5.1.1", Modality="CT", SeriesNumber="1", SOPInstanceUID="5.1.1.1", InstanceNumber="1"),
]

ABSENT = object()


def identifiers(quick):
    """(root, model uid, identifier dict)"""
    out = []
    pid = [ABSENT, "", "1", "A_", "A?", "A*", "a*", "?", "A%", "ab"]
    pname = [ABSENT, "", "A^B", "a^b", "A*", "*b", "A_*", "A\\*x^"[0:0] or "A*x^"]
    for a, b in itertools.product(pid, pname):
        d = {"QueryRetrieveLevel": "PATIENT"}
        if a is not ABSENT:
            d["PatientID"] = a
        if b is not ABSENT:
            d["PatientName"] = b
        out.append(("patient", PR_FIND, d))
    suid = [ABSENT, "", "1.1", ["1.1", "1.2"], "9.9"]
    sdate = [ABSENT, "", "20200101", "20200101-20200102", "-20200101", "20200102-"]
    acc = [ABSENT, "A_C1", "A?C1", "A*", "A%C1", "a*", "ABC1"]
    for a, b, c in itertools.product(suid, sdate, acc):
        for p in ("1", "2") if not quick or (b is ABSENT or c is ABSENT) else ("1",):
            d = {"QueryRetrieveLevel": "STUDY", "PatientID": p}
            for k, v in (("StudyInstanceUID", a), ("StudyDate", b), ("AccessionNumber", c)):
                if v is not ABSENT:
                    d[k] = v
            out.append(("patient", PR_FIND, d))
    for mod in (ABSENT, "", "CT", "ct", "C?", "*", "M*"):
        for sn in (ABSENT, "1", "", "0"):
            d = {"QueryRetrieveLevel": "SERIES", "PatientID": "1", "StudyInstanceUID": "1.1"}
            if mod is not ABSENT:
                d["Modality"] = mod
            if sn is not ABSENT:
                d["SeriesNumber"] = sn
            d.setdefault("SeriesInstanceUID", "")
            out.append(("patient", PR_FIND, d))
    for sop in ("", "1.1.1.1", ["1.1.1.1", "1.1.1.2"]):
        out.append(("patient", PR_FIND, {"QueryRetrieveLevel": "IMAGE", "PatientID": "1", "StudyInstanceUID": "1.1", "SeriesInstanceUID": "1.1.1", "SOPInstanceUID": sop}))
    for inum in ("0", "1", "2", ""):
        out.append(("patient", PR_FIND, {"QueryRetrieveLevel": "IMAGE", "PatientID": "1", "StudyInstanceUID": "1.1", "SeriesInstanceUID": "1.1.1", "SOPInstanceUID": "", "InstanceNumber": inum}))
    # invalid hierarchies
    out.append(("patient", PR_FIND, {"PatientID": "1"}))
    out.append(("patient", PR_FIND, {"QueryRetrieveLevel": "PATIENT"}))
    out.append(("patient", PR_FIND, {"QueryRetrieveLevel": "FRAME", "PatientID": "1"}))
    out.append(("patient", PR_FIND, {"QueryRetrieveLevel": "PATIENT", "PatientID": "1", "StudyDate": ""}))
    out.append(("patient", PR_FIND, {"QueryRetrieveLevel": "STUDY", "StudyInstanceUID": ""}))
    out.append(("patient", PR_FIND, {"QueryRetrieveLevel": "SERIES", "PatientID": "1", "SeriesInstanceUID": ""}))
    out.append(("study", SR_FIND, {"QueryRetrieveLevel": "PATIENT", "PatientID": "1"}))
    # study root
    for a, b in itertools.product(["", "1.1", ["1.1", "2.1"]], [ABSENT, "", "1", "A_", "a*"]):
        d = {"QueryRetrieveLevel": "STUDY", "StudyInstanceUID": a}
        if b is not ABSENT:
            d["PatientID"] = b
        out.append(("study", SR_FIND, d))
    out.append(("study", SR_FIND, {"QueryRetrieveLevel": "SERIES", "StudyInstanceUID": "1.1", "SeriesInstanceUID": "", "Modality": "CT"}))
    # C-GET / C-MOVE: only unique keys count
    for model in (PR_GET, PR_MOVE):
        out.append(("patient", model, {"QueryRetrieveLevel": "PATIENT", "PatientID": "1", "PatientName": "nobody"}))
        out.append(("patient", model, {"QueryRetrieveLevel": "STUDY", "PatientID": "1", "StudyInstanceUID": ["1.1", "1.2"], "StudyDate": "19000101"}))
        out.append(("patient", model, {"QueryRetrieveLevel": "IMAGE", "PatientID": "1", "StudyInstanceUID": "1.1", "SeriesInstanceUID": "1.1.1", "SOPInstanceUID": "1.1.1.2"}))
    return out


def to_ds(d):
    from pydicom.dataset import Dataset

    ds = Dataset()
    for k, v in d.items():
        setattr(ds, k, v)
    return ds


def wire_ds(d):
    """The identifier as the qrscp handlers see it: encoded by the requestor,
    decoded by the SCP under the pydicom configuration the qrscp application
    module itself installs when imported (empty text values decode to None)."""
    from io import BytesIO

    import pynetdicom.apps.qrscp.qrscp  # noqa: F401  (sets pydicom.config as the running application does)
    from pynetdicom.dsutils import decode, encode

    return decode(BytesIO(encode(to_ds(d), True, True)), True, True)


def inst_ds(inst):
    ds = to_ds(inst)
    ds.SOPClassUID = "1.2.840.10008.5.1.4.1.1.2"
    ds.SeriesNumber = int(inst["SeriesNumber"])
    ds.InstanceNumber = int(inst["InstanceNumber"])
    return ds


def classify_one(k, v):
    if v == "" or v is None:
        return "universal"
    if isinstance(v, list):
        return "uidlist"
    if ref.VR[k] in ("DA", "TM") and "-" in v:
        return "range"
    if ("*" in v or "?" in v) and ref.VR[k] != "UI":
        return "wildcard-" + ("lower" if v.lower() == v and v.upper() != v else "plain") + ("-sqlmeta" if "_" in v or "%" in v else "")
    return "single" + ("-sqlmeta" if "_" in v or "%" in v else "")


def classify(d):
    """matching types used, for keys of the violation"""
    kinds = {classify_one(k, v) for k, v in d.items() if k != "QueryRetrieveLevel"}
    # the most specific matching type present names the class of the case
    for pri in PRIORITY:
        if pri in kinds:
            return pri
    return "none"


PRIORITY = ("uidlist", "universal", "wildcard-plain-sqlmeta", "wildcard-lower-sqlmeta", "single-sqlmeta", "wildcard-lower", "wildcard-plain", "range", "single")


def culprit(root, level, d, db, extra):
    """matching types of the identifier keys that (per the reference) exclude every instance of a wrongly returned entity"""
    for e in sorted(extra, key=repr):
        insts = [i for i in db if ref.entity_key(root, level, i) == e]
        kinds = set()
        for k, v in d.items():
            if k == "QueryRetrieveLevel":
                continue
            if insts and all(ref.attr_match(k, v, i.get(k)) is False for i in insts):
                kinds.add(classify_one(k, v))
        for pri in PRIORITY:
            if pri in kinds:
                return pri
    return classify(d)


def eval_db(db_idx, db, idents, tmpdir):
    from pydicom.uid import UID
    from sqlalchemy import create_engine
    from sqlalchemy.orm import sessionmaker
    from pynetdicom.apps.qrscp import db as qdb
    from pynetdicom.apps.qrscp import handlers as qh

    path = os.path.join(tmpdir, f"db_{os.getpid()}_{db_idx}.sqlite")
    url = f"sqlite:///{path}"
    engine = qdb.create(url)
    Session = sessionmaker(bind=engine)
    session = Session()
    for inst in db:
        qdb.add_instance(inst_ds(inst), session)
    out = {}
    n = 0
    import logging

    logger = logging.getLogger("vk.c29")
    logger.addHandler(logging.NullHandler())
    logger.propagate = False
    for root, model, d in idents:
        n += 1
        reason = ref.validate(root, d)
        level = d.get("QueryRetrieveLevel")
        kind = f"{'find' if model in (PR_FIND, SR_FIND) else 'retrieve'}:{classify(d)}"
        try:
            res = qdb.search(UID(model), wire_ds(d), session)
            rejected = False
        except qdb.InvalidIdentifier:
            rejected = True
            res = []
            session.rollback()
        except Exception as exc:
            session.rollback()
            out.setdefault(f"{kind}:search-raised-{type(exc).__name__}", (f"db {db_idx}, identifier {d}: search raised {type(exc).__name__}: {exc}", {"db": db_idx, "model": model, "identifier": d}))
            continue
        if (reason is not None) != rejected:
            out.setdefault(f"{kind}:rejection-{reason or 'valid'}", (f"identifier {d}: {'rejected' if rejected else 'accepted'}, hierarchy check says {reason or 'valid'}", {"db": db_idx, "model": model, "identifier": d}))
            continue
        if reason is not None:
            continue
        unique_only = model in (PR_GET, PR_MOVE)
        sure, maybe = ref.select(root, d, db, unique_only=unique_only)
        got_inst = [{k: getattr(r, qdb._TRANSLATION[k]) for k in qdb._TRANSLATION} for r in res]
        got = {ref.entity_key(root, level, {k: (None if v is None else str(v)) for k, v in g.items()}) for g in got_inst}
        missing = sure - got
        extra = got - sure - maybe
        if missing or extra:
            if extra and not missing:
                kind = f"{kind.split(':')[0]}:{culprit(root, level, d, db, extra)}"
            out.setdefault(f"{kind}:entities-{'missing' if missing else ''}{'extra' if extra else ''}", (f"db of {len(db)} instances, identifier {d}: returned entities {sorted(got)}, PS3.4 matching selects {sorted(sure)}" + (f" (optionally {sorted(maybe)})" if maybe else ""), {"db": db_idx, "model": model, "identifier": d}))
            continue
        if model in (PR_FIND, SR_FIND):
            # one C-FIND response per matching entity
            event = types.SimpleNamespace(assoc=types.SimpleNamespace(requestor=types.SimpleNamespace(address="127.0.0.1", port=1), ae=types.SimpleNamespace(ae_title="QRSCP")), timestamp=__import__("datetime").datetime(2020, 1, 1), request=types.SimpleNamespace(AffectedSOPClassUID=UID(model)), identifier=wire_ds(d), is_cancelled=False)
            try:
                rsp = [(st, ds) for st, ds in qh.handle_find(event, url, types.SimpleNamespace(), logger)]
            except Exception as exc:
                out.setdefault(f"{kind}:handle_find-raised-{type(exc).__name__}", (f"identifier {d}: handle_find raised {exc}", {"db": db_idx, "model": model, "identifier": d}))
                continue
            pend = [ds for st, ds in rsp if st == 0xFF00]
            if len(pend) != len(got):
                out.setdefault(f"find:responses-per-entity:{level}", (f"db of {len(db)} instances, identifier {d}: {len(pend)} C-FIND responses for {len(got)} matching {level} entities", {"db": db_idx, "model": model, "identifier": d}))
    session.close()
    engine.dispose()
    os.unlink(path)
    return n, out


def databases(quick):
    dbs = []
    idxs = range(len(UNIVERSE))
    for r in (1, 2, 3):
        for sub in itertools.combinations(idxs, r):
            dbs.append([UNIVERSE[i] for i in sub])
    dbs.append(list(UNIVERSE))
    if quick:
        dbs = dbs[:: max(1, len(dbs) // 24)] + [list(UNIVERSE)]
    return dbs


def _chunk(items, quick):
    tmp = tempfile.mkdtemp(prefix="vk-c29-")
    idents = identifiers(quick)
    out = {}
    n = 0
    try:
        for i, db in items:
            cn, bad = eval_db(i, db, idents, tmp)
            n += cn
            for k, v in bad.items():
                out.setdefault(k, v)
    finally:
        for fn in os.listdir(tmp):
            os.unlink(os.path.join(tmp, fn))
        os.rmdir(tmp)
    return n, out


def run(ctx: core.Ctx) -> core.Result:
    dbs = list(enumerate(databases(ctx.quick)))
    n = core.NPROC * 2
    res = core.pmap(_chunk, [(dbs[i::n], ctx.quick) for i in range(n) if dbs[i::n]], seed=ctx.seed)
    viol, seen, tot = [], set(), 0
    for cn, bad in res:
        tot += cn
        for k, (t, rp) in bad.items():
            if k not in seen:
                seen.add(k)
                rp = dict(rp)
                rp["identifier"] = {a: b for a, b in rp["identifier"].items()}
                viol.append(core.Violation(k, t, rp))
    idents = identifiers(ctx.quick)
    cov = {
        "evaluations": tot,
        "distinct_nontrivial": len(dbs) * len([1 for r, m, d in idents if ref.validate(r, d) is None]),
        "rule": f"{len(dbs)} databases (subsets of size <= 3 of an 8-instance universe, incl. series / instance numbers 0, + the full universe; quick tier: every k-th) x {len(idents)} identifiers (all combinations of matching types per key at each level, invalid hierarchies, study root, C-GET/C-MOVE key restriction); non-trivial = valid hierarchy",
        "exhaustive": not ctx.quick,
        "samples": [{"root": idents[i][0], "identifier": {k: v for k, v in idents[i][2].items()}} for i in ctx.sample_indices(len(idents), 5)],
    }
    return core.Result("exploration", cov, viol, assumptions=["reference matching transcribed from PS3.4 C.2.2.2 / C.4.1 (vk/ref/match.py); PN matching may or may not fold case", "real SQLite file database per enumerated instance set"])


def replay(ctx, data):
    tmp = tempfile.mkdtemp(prefix="vk-c29-")
    dbs = databases(False)
    root = "study" if data["model"] == SR_FIND else "patient"
    n, out = eval_db(0, dbs[data["db"]] if data["db"] < len(dbs) else list(UNIVERSE), [(root, data["model"], data["identifier"])], tmp)
    print(out)
    return 0
