"""C10 - acceptor-side presentation context negotiation follows PS3.8 and the
role table.

Bounded-exhaustive enumeration of proposals (1..3 contexts over four kinds of
abstract syntax, duplicates allowed, several transfer-syntax lists), supported
configurations (per abstract syntax: absent, or a preference list with
scu_role/scp_role in {None,True,False}^2) and role proposals (absent, TT, TF,
FT, FF per abstract syntax) through the real negotiate_as_acceptor and
negotiate_unrestricted, compared with the reference model vk/ref/neg.py.
"""
from __future__ import annotations

import itertools

from vk import core
from vk.ref import neg as ref

A = "1.2.840.10008.1.1"  # Verification
B = "1.2.840.10008.5.1.4.1.1.2"  # CT Image Storage
Pv = "1.2.826.0.1.3680043.9.3811.9.1"  # private
U = "1.2.840.10008.5.1.4.1.1.999"  # public root, unknown to pynetdicom
Q = "1.2.840.10008.5.1.4.1.2.1.1"  # Patient Root Q/R Find (non-storage, known)
T1, T2, T3 = "1.2.840.10008.1.2", "1.2.840.10008.1.2.1", "1.2.840.10008.1.2.2"
T4 = "1.2.840.10008.1.2.1.99"
ABS = [A, B, Pv, U]
ROLE_OPTS = [None, (True, True), (True, False), (False, True), (False, False)]
R9 = [(a, b) for a in (None, True, False) for b in (None, True, False)]


def _build(proposed, supported, roles):
    from pynetdicom.presentation import PresentationContext, build_context

    rq = []
    for cid, ab, tss in proposed:
        cx = build_context(ab, list(tss))
        cx.context_id = cid
        rq.append(cx)
    ac = []
    for ab, (pref, scu, scp) in supported.items():
        cx = build_context(ab, list(pref))
        cx.scu_role = scu
        cx.scp_role = scp
        ac.append(cx)
    return rq, ac, dict(roles)


def _observe(result, reply_items):
    out = {}
    dup = []
    for cx in result:
        if cx.context_id in out:
            dup.append(cx.context_id)
        ts = cx.transfer_syntax[0] if cx.transfer_syntax else None
        out[cx.context_id] = (cx.result, str(ts) if cx.result == 0 else None, bool(cx.as_scu) if cx.result == 0 else False, bool(cx.as_scp) if cx.result == 0 else False, str(cx.abstract_syntax))
    replies = {str(r.sop_class_uid): (bool(r.scu_role), bool(r.scp_role)) for r in reply_items}
    return out, replies, dup


def is_storage_like(ab):
    from pydicom.uid import UID
    from pynetdicom import sop_class
    from pynetdicom.sop_class import _STORAGE_CLASSES

    u = UID(ab)
    return u.is_private or u in _STORAGE_CLASSES.values() or not hasattr(sop_class, u.keyword)


def eval_case(mode, proposed, supported, roles):
    """-> list of (symptom key, text)"""
    from pynetdicom.presentation import negotiate_as_acceptor, negotiate_unrestricted

    rq, ac, rl = _build(proposed, supported, roles)
    fn = negotiate_as_acceptor if mode == "normal" else negotiate_unrestricted
    try:
        res, rep = fn(rq, ac, rl)
    except Exception as exc:
        return [("exception-" + type(exc).__name__, f"raised {type(exc).__name__}: {exc}")]
    got, got_rep, dup = _observe(res, rep)
    if mode == "normal":
        want, want_rep = ref.negotiate(proposed, supported, roles)
    else:
        want, want_rep = ref.negotiate_unrestricted(proposed, supported, roles, is_storage_like)
    bad = []
    if dup:
        bad.append(("duplicate-result", f"more than one result for context IDs {dup}"))
    ids = [c[0] for c in proposed]
    if sorted(got) != sorted(ids):
        bad.append(("result-ids", f"results for IDs {sorted(got)}, proposed {sorted(ids)}"))
    for cid, ab, tss in proposed:
        if cid not in got:
            continue
        g, w = got[cid], want[cid]
        kind = "storage-like" if mode == "unrestricted" and is_storage_like(ab) else "normal"
        if g[4] != ab:
            bad.append(("abstract-syntax", f"context {cid}: result carries abstract syntax {g[4]}, proposed {ab}"))
        if g[0] != w[0]:
            bad.append((f"result-{kind}-{g[0]}-vs-{w[0]}", f"context {cid} ({_n(ab)}): result {g[0]}, reference {w[0]}"))
            continue
        if g[0] == 0:
            if g[1] != w[1]:
                bad.append((f"transfer-syntax-{kind}", f"context {cid} ({_n(ab)}): accepted transfer syntax {g[1]}, reference {w[1]} (proposed {list(tss)})"))
            if (g[2], g[3]) != (w[2], w[3]):
                bad.append((f"roles-{kind}-rq{_r(roles.get(ab))}-as_scu{int(g[2])}-as_scp{int(g[3])}", f"context {cid} ({_n(ab)}): acceptor (as_scu, as_scp) = {(g[2], g[3])}, reference {(w[2], w[3])}; proposed roles {roles.get(ab)}, supported {supported.get(ab)}"))
            if not g[2] and not g[3]:
                bad.append((f"accepted-without-role-{kind}", f"context {cid} ({_n(ab)}): accepted with as_scu = as_scp = False"))
    if got_rep != want_rep:
        for ab in sorted(set(got_rep) | set(want_rep)):
            if got_rep.get(ab) != want_rep.get(ab):
                kind = "storage-like" if mode == "unrestricted" and is_storage_like(ab) else "normal"
                bad.append((f"role-reply-{kind}-{_r(got_rep.get(ab))}-vs-{_r(want_rep.get(ab))}", f"role reply for {_n(ab)}: {got_rep.get(ab)}, reference {want_rep.get(ab)} (proposed {roles.get(ab)}, supported {supported.get(ab)})"))
    for ab, r in got_rep.items():
        p = roles.get(ab)
        if p is None or (r[0] and not p[0]) or (r[1] and not p[1]):
            bad.append(("reply-exceeds-proposal", f"role reply {r} for {_n(ab)} grants a role not proposed ({p})"))
    return [(f"{mode}:{k}", t) for k, t in bad]


def _n(ab):
    return {A: "Verification", B: "CTStorage", Pv: "private", U: "unknown", Q: "QRFind"}.get(ab, ab)


def _r(r):
    return "none" if r is None else "".join("T" if x else ("F" if x is False else "N") for x in r)


TS_OPTS_1 = [(T1,), (T2,), (T1, T2), (T2, T1), (T3,), (T3, T2, T1)]
TS_OPTS_2 = [(T1,), (T1, T2), (T3,)]
SUP_PREFS_1 = [(T1,), (T1, T2), (T2, T1)]


def gen_cases(quick):
    """Yield (proposed, supported, roles)."""
    abs2 = [A, B, Pv, U, Q]
    # one context: full product
    for ab in abs2:
        for tss in TS_OPTS_1:
            for rp in ROLE_OPTS:
                roles = {} if rp is None else {ab: rp}
                yield [(1, ab, tss)], {}, roles
                for pref in SUP_PREFS_1:
                    for r in R9:
                        yield [(1, ab, tss)], {ab: (pref, r[0], r[1])}, roles
    # transfer syntax selection: every ordered non-empty sub-list of four transfer syntaxes on both
    # sides (64 x 64), incl. proposals shorter / longer than the supported list and opposite orders
    subl = [p for n in range(1, 5) for p in itertools.permutations((T1, T2, T3, T4), n)]
    for tss in subl:
        for pref in subl:
            yield [(1, B, tss)], {B: (pref, None, None)}, {}
    # two contexts
    for a1, a2 in itertools.product(abs2, repeat=2):
        distinct = sorted({a1, a2})
        for t1, t2 in itertools.product(TS_OPTS_2, repeat=2):
            for rps in itertools.product(ROLE_OPTS, repeat=len(distinct)):
                roles = {ab: rp for ab, rp in zip(distinct, rps) if rp is not None}
                sup_opts = [[None] + [((T2, T1), r[0], r[1]) for r in R9] for _ in distinct]
                for sups in itertools.product(*sup_opts):
                    supported = {ab: s for ab, s in zip(distinct, sups) if s is not None}
                    yield [(1, a1, t1), (3, a2, t2)], supported, roles
    if not quick:
        for a1, a2, a3 in itertools.product([A, B, Pv, Q], repeat=3):
            distinct = sorted({a1, a2, a3})
            for rps in itertools.product(ROLE_OPTS, repeat=len(distinct)):
                roles = {ab: rp for ab, rp in zip(distinct, rps) if rp is not None}
                sup_opts = [[None] + [((T2, T1), r[0], r[1]) for r in [(None, None), (True, True), (True, False), (False, True), (False, False)]] for _ in distinct]
                for sups in itertools.product(*sup_opts):
                    supported = {ab: s for ab, s in zip(distinct, sups) if s is not None}
                    yield [(1, a1, (T1, T2)), (3, a2, (T1,)), (5, a3, (T3, T1))], supported, roles
    # many contexts (128) with repeated abstract syntaxes
    big = [(2 * i + 1, [A, B, Q][i % 3], (T1, T2) if i % 2 else (T2,)) for i in range(128)]
    yield big, {A: ((T1,), None, None), B: ((T2, T1), True, True)}, {B: (True, True)}


def _chunk(lo, hi, quick):
    bad = {}
    n = 0
    nontrivial = set()
    for i, (proposed, supported, roles) in enumerate(gen_cases(quick)):
        if i < lo:
            continue
        if i >= hi:
            break
        for mode in ("normal", "unrestricted"):
            n += 1
            v = eval_case(mode, proposed, supported, roles)
            for k, t in v:
                if k not in bad:
                    bad[k] = (t, {"mode": mode, "proposed": [[c, a, list(t_)] for c, a, t_ in proposed], "supported": {a: [list(s[0]), s[1], s[2]] for a, s in supported.items()}, "roles": {a: list(r) for a, r in roles.items()}})
        if supported and any(a in supported for _, a, _ in proposed):
            nontrivial.add(i)
    return n, bad, len(nontrivial)


def run(ctx: core.Ctx) -> core.Result:
    total = sum(1 for _ in gen_cases(ctx.quick))
    res = core.pmap(_chunk, [(lo, hi, ctx.quick) for lo, hi in core.chunks(total, core.NPROC * 4)], seed=ctx.seed)
    viol, seen = [], set()
    n = nt = 0
    for cn, bad, cnt in res:
        n += cn
        nt += cnt
        for k, (t, rp) in bad.items():
            if k not in seen:
                seen.add(k)
                viol.append(core.Violation(k, t, rp))
    cases = list(itertools.islice(gen_cases(ctx.quick), 0, None, max(1, total // 5)))[:5]
    cov = {
        "evaluations": n,
        "distinct_nontrivial": nt,
        "rule": "product of proposals (1-2 contexts quick / +3 contexts thorough over 5 abstract-syntax kinds incl. duplicates, transfer-syntax lists), supported configurations (absent or preference list x roles {None,T,F}^2) and role proposals {absent,TT,TF,FT,FF}; both negotiate_as_acceptor and negotiate_unrestricted; non-trivial = at least one proposed abstract syntax is supported",
        "configurations": total,
        "exhaustive": True,
        "samples": [{"proposed": [[c, _n(a), list(t)] for c, a, t in p][:3], "supported": {_n(a): [list(s[0]), s[1], s[2]] for a, s in su.items()}, "roles": {_n(a): list(r) for a, r in ro.items()}} for p, su, ro in cases],
    }
    return core.Result("exploration", cov, viol, assumptions=["reference vk/ref/neg.py transcribed from PS3.8 / PS3.7 D.3.3.4 / the documented role table", "role proposals are booleans (what the wire can carry)"])


def replay(ctx, data):
    proposed = [(c, a, tuple(t)) for c, a, t in data["proposed"]]
    supported = {a: (tuple(s[0]), s[1], s[2]) for a, s in data["supported"].items()}
    roles = {a: tuple(r) for a, r in data["roles"].items()}
    for k, t in eval_case(data["mode"], proposed, supported, roles):
        print("VIOLATED:", k, t)
    return 0
