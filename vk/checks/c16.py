"""C16 - every DIMSE message pynetdicom sends is completely receivable.

(1) All 23 message types x data-set parameter in {absent, empty, non-empty}
    (in-memory) plus file-backed C-STORE: the command set must announce a data
    set exactly when data-set fragments are sent, and the real decode_msg must
    complete the message.
(2) Two real AEs under the simulator: every public send_* call that takes a
    data set, with an empty pydicom Dataset / None where the API allows it and
    with a non-empty one, and SCP handlers answering with empty data sets: the
    peer's service layer must receive the message (handler invoked / SCU gets
    its response) without anybody waiting for a DIMSE timeout.
"""
from __future__ import annotations

from io import BytesIO

from vk import core, explore, scen, sim, monitors as M
from vk.ref import cmd as refcmd

SOME = b"\x08\x00\x18\x00\x06\x00\x00\x001.2.3\x00"


def eval_msg(name, ds_kind, max_pdu=16382):
    from pynetdicom import dimse_primitives as dp
    from pynetdicom.dimse import _RQ_TO_MESSAGE, _RSP_TO_MESSAGE
    from pynetdicom.dimse_messages import DIMSEMessage

    cls_name, is_rsp, field, plist, ds_kw = refcmd.MESSAGES[name]
    prim = getattr(dp, cls_name)()
    if is_rsp:
        prim.MessageIDBeingRespondedTo = 1
    else:
        prim.MessageID = 1
    for k in plist:
        setattr(prim, k, refcmd.VALUES[k][0])
    if ds_kw:
        if ds_kind == "empty":
            setattr(prim, ds_kw, BytesIO(b""))
        elif ds_kind == "some":
            setattr(prim, ds_kw, BytesIO(SOME))
        elif isinstance(ds_kind, int):
            setattr(prim, ds_kw, BytesIO(bytes((i * 7 + 3) % 251 for i in range(ds_kind))))
    msg = (_RSP_TO_MESSAGE if prim.MessageIDBeingRespondedTo is not None else _RQ_TO_MESSAGE)[type(prim)]()
    msg.primitive_to_message(prim)
    pdatas = list(msg.encode_msg(1, max_pdu))
    data_pdvs = sum(1 for p in pdatas for _, b in p.presentation_data_value_list if not b[0] & 1)
    announces = msg.command_set.CommandDataSetType != 0x0101
    bad = []
    if announces != (data_pdvs > 0):
        bad.append(("announce-mismatch", f"{name} with {ds_kind} data set: CommandDataSetType 0x{msg.command_set.CommandDataSetType:04X} but {data_pdvs} data-set PDVs sent"))
    rx = DIMSEMessage()
    done = False
    # (the sender's primitives are all produced before any is consumed, as when the provider thread
    # transmits them after the sending thread has queued them)
    try:
        for p in pdatas:
            done = rx.decode_msg(p)
    except Exception as exc:  # noqa
        bad.append(("receiver-raised", f"{name} with {ds_kind} data set: the receiver cannot decode what was sent: {type(exc).__name__}: {exc}"))
        done = True
    if not done:
        bad.append(("receiver-incomplete", f"{name} with {ds_kind} data set: the receiver never completes the message"))
    return bad


# ---- end to end -------------------------------------------------------------

OPS = ["c_find", "c_get", "c_move", "c_store", "n_set", "n_action", "n_create", "n_event_report", "n_get", "n_delete"]


class EndToEnd(explore.Scenario):
    max_steps = 80000
    max_time = 60.0

    def __init__(self, op, ds_kind, rsp_kind):
        self.op, self.ds_kind, self.rsp_kind = op, ds_kind, rsp_kind
        self.name = f"e2e[{op},{ds_kind},{rsp_kind}]"

    def build(self, s):
        from pydicom.dataset import Dataset, FileMetaDataset
        from pynetdicom import evt
        from pynetdicom.sop_class import PatientRootQueryRetrieveInformationModelFind as FIND, PatientRootQueryRetrieveInformationModelGet as GET, PatientRootQueryRetrieveInformationModelMove as MOVE, CTImageStorage as CT, BasicFilmSession as FILM

        ctx = {"calls": [], "res": {}, "t": {}}
        acc = scen.make_ae("ACC")
        rq = scen.make_ae("REQ")
        for sop in (FIND, GET, MOVE, CT, FILM):
            acc.add_supported_context(sop)
            rq.add_requested_context(sop)

        def rsp_ds():
            if self.rsp_kind == "empty":
                return Dataset()
            if self.rsp_kind == "none":
                return None
            d = Dataset()
            d.PatientID = "1"
            return d

        def gen_find(event):
            ctx["calls"].append(event.event.name)
            if self.rsp_kind != "none":
                yield 0xFF00, rsp_ds()

        def gen_get(event):
            ctx["calls"].append(event.event.name)
            yield 0

        def gen_move(event):
            ctx["calls"].append(event.event.name)
            yield ("127.0.0.1", 11113)
            yield 0

        def h_store(event):
            ctx["calls"].append(event.event.name)
            return 0

        def h_n(event):
            ctx["calls"].append(event.event.name)
            return 0, rsp_ds()

        def h_del(event):
            ctx["calls"].append(event.event.name)
            return 0

        handlers = [(evt.EVT_C_FIND, gen_find), (evt.EVT_C_GET, gen_get), (evt.EVT_C_MOVE, gen_move), (evt.EVT_C_STORE, h_store), (evt.EVT_N_SET, h_n), (evt.EVT_N_ACTION, h_n), (evt.EVT_N_CREATE, h_n), (evt.EVT_N_EVENT_REPORT, h_n), (evt.EVT_N_GET, h_n), (evt.EVT_N_DELETE, h_del)]
        scen.start_server(s, acc, handlers, max_requests=1)

        def req_ds():
            if self.ds_kind == "empty":
                d = Dataset()
            elif self.ds_kind == "none":
                return None
            else:
                d = Dataset()
                d.PatientID = "1"
                d.QueryRetrieveLevel = "PATIENT"
                d.SOPClassUID = CT
                d.SOPInstanceUID = "1.2.3"
            if self.op == "c_store":
                d.file_meta = FileMetaDataset()
                d.file_meta.TransferSyntaxUID = scen.IVRLE
                d.SOPClassUID = CT
                d.SOPInstanceUID = "1.2.3"
            return d

        def user():
            a = rq.associate("127.0.0.1", scen.PORT)
            if not a.is_established:
                ctx["res"]["assoc"] = "not-established"
                return
            t0 = s.now
            op = self.op
            out = None
            try:
                if op == "c_find":
                    out = [(st.get("Status"), ds is not None) for st, ds in a.send_c_find(req_ds(), FIND)]
                elif op == "c_get":
                    out = [(st.get("Status"),) for st, ds in a.send_c_get(req_ds(), GET)]
                elif op == "c_move":
                    out = [(st.get("Status"),) for st, ds in a.send_c_move(req_ds(), "DEST", MOVE)]
                elif op == "c_store":
                    out = [(a.send_c_store(req_ds()).get("Status"),)]
                elif op == "n_set":
                    st, ds = a.send_n_set(req_ds(), FILM, "1.2.3")
                    out = [(st.get("Status"), ds is not None)]
                elif op == "n_action":
                    st, ds = a.send_n_action(req_ds(), 1, FILM, "1.2.3")
                    out = [(st.get("Status"), ds is not None)]
                elif op == "n_create":
                    st, ds = a.send_n_create(req_ds(), FILM, "1.2.3")
                    out = [(st.get("Status"), ds is not None)]
                elif op == "n_event_report":
                    st, ds = a.send_n_event_report(req_ds(), 1, FILM, "1.2.3")
                    out = [(st.get("Status"), ds is not None)]
                elif op == "n_get":
                    st, ds = a.send_n_get([(0x0010, 0x0010)], FILM, "1.2.3")
                    out = [(st.get("Status"), ds is not None)]
                elif op == "n_delete":
                    st = a.send_n_delete(FILM, "1.2.3")
                    out = [(st.get("Status"),)]
            except Exception as exc:
                ctx["res"]["raised"] = f"{type(exc).__name__}: {exc}"
            ctx["res"]["out"] = out
            ctx["t"]["op"] = s.now - t0
            ctx["res"]["established_after"] = a.is_established
            if a.is_established:
                a.release()

        s.spawn(user, "user")
        return ctx

    def check(self, s, ctx, why):
        v = []
        tag = self.name
        for th, k, msg in M.thread_exceptions(s):
            v.append((f"{tag}:uncaught-{k}-in-{th}", f"{tag}: uncaught exception in {th}: {msg}"))
        if why != "terminated":
            v.append((f"{tag}:not-terminated-{why}", f"{tag}: ended {why}"))
        res = ctx["res"]
        if res.get("raised"):
            # the API may refuse an argument up front (documented ValueError/TypeError) - then nothing was sent
            if ctx["calls"]:
                v.append((f"{tag}:raised-after-send", f"{tag}: API raised {res['raised']} although the request reached the peer"))
            return v
        if not ctx["calls"]:
            v.append((f"{tag}:handler-not-invoked", f"{tag}: the peer's service handler was never invoked (result {res.get('out')})"))
        out = res.get("out") or []
        if not out or out[-1][0] is None:
            v.append((f"{tag}:no-status", f"{tag}: the SCU call returned no status: {out}"))
        if ctx["t"].get("op", 0) >= scen.TIMEOUTS["dimse"] - 0.01:
            v.append((f"{tag}:waited-dimse-timeout", f"{tag}: the call took {ctx['t']['op']:.2f}s of virtual time (DIMSE timeout {scen.TIMEOUTS['dimse']}s)"))
        if not res.get("established_after"):
            v.append((f"{tag}:association-lost", f"{tag}: the association did not survive the operation"))
        return v

    def summary(self, s, ctx, why):
        return (why, tuple(ctx["calls"]), str(ctx["res"].get("out")), bool(ctx["res"].get("raised")))


def run(ctx: core.Ctx) -> core.Result:
    viol, seen = [], set()

    def add(k, t, rp):
        if k not in seen:
            seen.add(k)
            viol.append(core.Violation(k, t, rp))

    n1 = 0
    for name in refcmd.MESSAGES:
        for dk in ("absent", "empty", "some"):
            n1 += 1
            for k, t in eval_msg(name, dk):
                add(f"{name}:{dk}:{k}", t, {"fn": "msg", "name": name, "ds": dk})
        if refcmd.MESSAGES[name][4]:
            # data-set lengths around the multiples of the fragment size (maximum length - 6)
            for mp in (16382, 32, 0):
                f = (mp or 16382) - 6
                for L in sorted({f - 1, f, f + 1, 2 * f - 1, 2 * f, 2 * f + 1, 3 * f}):
                    n1 += 1
                    for k, t in eval_msg(name, L, mp):
                        add(f"{name}:len-k*fragment{L - (L // f) * f if L % f < f // 2 else L % f - f:+d}:{k}", t + f" (maximum length {mp}, data set of {L} bytes)", {"fn": "msg", "name": name, "ds": L, "max_pdu": mp})
    scns = []
    for op in OPS:
        ds_kinds = ["some", "empty"] if op not in ("n_get", "n_delete") else ["none"]
        if op in ("n_action", "n_event_report", "n_set", "n_create"):
            ds_kinds.append("none")
        for dk in ds_kinds:
            for rk in (("some", "empty", "none") if op.startswith("n_") and op != "n_delete" or op == "c_find" else ("some",)):
                scns.append(EndToEnd(op, dk, rk))
    res = explore.explore_family(scns, D=ctx.pick(0, 1), seed=ctx.seed)
    tot = {"executions": 0, "steps": 0}
    outcomes = set()
    for scn, r in zip(scns, res):
        tot["executions"] += r["stats"]["executions"]
        tot["steps"] += r["stats"]["steps"]
        outcomes |= set(r["summaries"])
        for k, (t, pfx) in r["viols"].items():
            add(k, t, {"fn": "e2e", "op": scn.op, "ds": scn.ds_kind, "rsp": scn.rsp_kind, "choices": pfx})
    cov = {
        "evaluations": n1 + tot["executions"],
        "distinct_nontrivial": n1 * 2 // 3 + len(outcomes),
        "rule": "layer 1: 23 message types x {absent, empty, non-empty} data set, and every message type that carries a data set x maximum length {16382, 32, 0} x 7 data-set lengths around the multiples of the fragment size, through primitive_to_message/encode_msg/decode_msg; layer 2: 10 public send_* operations x request data set {non-empty, empty, None where allowed} x handler response data set {non-empty, empty, None} between two real AEs under the simulator (default schedule; thorough: all schedules with <= 1 deviation); non-trivial = data set present or a distinct end-to-end outcome",
        "end_to_end_scenarios": len(scns),
        "scheduler_steps": tot["steps"],
        "exhaustive": True,
        "samples": [{"message": "N-SET-RQ", "data_set": "empty"}, {"scenario": scns[1].name}, {"scenario": scns[-1].name}],
    }
    return core.Result("exploration", cov, viol, assumptions=["an API call that refuses its argument up front (raises before sending) is not a violation", "same simulator trusted base as C05/C06"])


def replay(ctx, data):
    if data["fn"] == "msg":
        print(eval_msg(data["name"], data["ds"], data.get("max_pdu", 16382)))
        return 0
    r = explore.execute(EndToEnd(data["op"], data["ds"], data["rsp"]), tuple(data["choices"]))
    print(r["why"], r["summary"], r["viol"])
    return 1 if r["viol"] else 0
