"""C08 - no peer behaviour keeps pynetdicom blocked past its timeouts.

Fault enumeration: for the local side as acceptor and as requestor, the raw
peer delivers its (otherwise valid) byte stream up to EVERY byte offset of
every protocol phase - before/inside/after the association request or
response, inside and after a DIMSE message, inside and after the release
exchange - and then stays silent with the connection open; plus a peer that
never completes connect() and a peer that dribbles one byte per interval.
Virtual time runs in prompt mode, so elapsed time is meaningful: every API
call and every thread must be finished within the relevant timeouts.
"""
from __future__ import annotations

from vk import core, explore, peer as P, rawpeer, scen, monitors as M

T = scen.TIMEOUTS  # acse 2, dimse 3, network 5, connection 1
MARGIN = 0.6
ECHO_RQ = P.pdata(1, P.command_set(0x0030, msg_id=7))


def _parts(role):
    if role == "acceptor":
        # (phase name, bytes the peer sends, PDUs expected back afterwards in total)
        return [("assoc-rq", P.assoc_rq(), 1), ("echo-rq", ECHO_RQ, 2), ("release-rq", P.RELEASE_RQ, 3)]
    return [("assoc-ac", P.assoc_ac(), 2), ("echo-rsp", P.pdata(1, P.command_set(0x8030, rsp_to=1, status=0)), 3), ("release-rp", P.RELEASE_RP, 3)]


def _script(role, cut, dribble=None):
    """cut = absolute offset into the concatenation of the peer's parts."""
    sc = []
    off = 0
    parts = _parts(role)
    if role == "requestor":
        sc.append(("expect", 1))  # the A-ASSOCIATE-RQ
    where = ("end", "boundary")
    for i, (name, data, exp) in enumerate(parts):
        if cut <= off:
            where = (name, "boundary")
            break
        n = min(len(data), cut - off)
        if dribble and cut - off <= len(data):
            # the phase under test: everything but the last 8 bytes at once,
            # then one byte per interval until the PDU is complete
            k = max(0, len(data) - 8)
            sc.append(("mark",))
            if k:
                sc.append(("send", data[:k]))
            for j in range(k, len(data)):
                sc.append(("sleep", dribble))
                sc.append(("send", data[j : j + 1]))
            n = len(data)
        else:
            sc.append(("send", data[:n]))
        if n < len(data):
            where = (name, "header" if n < 6 else "body")
            break
        off += len(data)
        sc.append(("expect", exp))
    sc.append(("silent",))
    return sc, where


def _total(role):
    return sum(len(d) for _, d, _ in _parts(role))


def _check(role, where, cut, kind):
    def check(s, ctx, why):
        v = []
        tag = f"{role}:{where[0]}:{where[1]}"
        for th, k, msg in M.thread_exceptions(s):
            v.append((f"{tag}:uncaught-{k}-in-{th}", f"{role}, peer silent after offset {cut} ({where}): uncaught exception in {th}: {msg}"))
        local_live = [t for t in s.live_threads() if t.name != "peer"]
        if local_live:
            bl = [b for b in s.describe_blocked() if b[0] != "peer"]
            sites = sorted({(b[0], (b[5] or ['?'])[0].split(':')[1] if b[5] else b[2]) for b in bl})
            v.append((f"{tag}:blocked-" + "+".join(f"{a}@{b}" for a, b in sites), f"{role}, peer silent after offset {cut} ({where[0]}, {where[1]}): still blocked at virtual t={s.now - s.t0:.1f}s ({why}): {sites}"))
            return v
        t_cut = ctx["peer"].get("t_mark") or ctx["peer"]["t_done"] or s.t0
        t_end = max([getattr(t, "t_exit", s.t0) for t in s.threads if t.name != "peer"] + [s.t0])
        after = t_end - t_cut
        bound = T["network"] + T["acse"] + MARGIN
        if after > bound:
            v.append((f"{tag}:slow", f"{role}, peer silent after offset {cut} ({where}): everything ended only {after:.2f}s after the peer went silent (bound {bound:.1f}s)"))
        limits = {"associate": T["connection"] + T["acse"] + MARGIN, "echo": T["dimse"] + MARGIN, "release": T["acse"] + MARGIN, "abort": T["acse"] + MARGIN}
        if kind == "chatter":
            # the peer keeps sending after the local abort, so the local side legitimately waits for
            # the ARTIM timer (= ACSE timeout) before it closes the connection itself
            limits = {k: v + T["acse"] for k, v in limits.items()}
        for call, t0, t1 in ctx["t_calls"]:
            if t1 - t0 > limits[call]:
                v.append((f"{tag}:call-{call}-slow", f"{role}, peer silent after offset {cut} ({where}): {call}() took {t1 - t0:.2f}s, limit {limits[call]:.1f}s"))
        for c in s.net.conns:
            ep = c.s if role == "acceptor" else c.c
            if not ep.closed:
                v.append((f"{tag}:socket-open", f"{role}, peer silent after offset {cut}: local socket left open"))
        return v

    return check


def _case(role, cut, kind="silent", dribble=None):
    sc, where = _script(role, cut, dribble)
    scn = rawpeer.RawPeerScenario(role, sc, name="c08", patience=60.0)
    scn.max_time = 45.0
    if kind == "dribble":
        where = (where[0], "dribble-" + where[1])
    scn.check = _check(role, where, cut, kind)
    return explore.execute(scn, ())


CHATTER_PDU = P.pdata(1, b"\x00\x00\x00\x00", command=False, last=False)


def _chatter_script(role, trigger, straddle, interval=0.2, duration=16.0):
    """The peer brings the local side into a state in which it waits for the
    peer (an unanswered request, Sta13 after a local abort / release response)
    and then never stops talking: a P-DATA PDU every `interval` seconds, whole
    or cut so that every segment ends 3 bytes into the next PDU."""
    sc = []
    if role == "requestor":
        sc += [("expect", 1), ("send", P.assoc_ac()), ("expect", 2)]  # accept, receive the C-ECHO-RQ, never answer it
    elif trigger == "second-rq":
        sc += [("send", P.assoc_rq()), ("expect", 1), ("send", P.assoc_rq())]  # AA-8: provider abort, Sta13
    else:  # released
        sc += [("send", P.assoc_rq()), ("expect", 1), ("send", P.RELEASE_RQ), ("expect", 2)]  # AR-4: Sta13 awaiting close
    sc.append(("mark",))
    n = int(duration / interval)
    stream = CHATTER_PDU * (n + 1)
    L = len(CHATTER_PDU)
    for i in range(n):
        lo = 0 if i == 0 else i * L + (3 if straddle else 0)
        hi = (i + 1) * L + (3 if straddle else 0)
        sc.append(("send", stream[lo:hi]))
        sc.append(("sleep", interval))
    sc.append(("silent",))
    return sc


def _chatter(role, trigger, straddle):
    scn = rawpeer.RawPeerScenario(role, _chatter_script(role, trigger, straddle), name="c08-chatter", patience=60.0)
    scn.max_time = 60.0
    scn.max_steps = 400000
    scn.check = _check(role, (trigger, "chatter-" + ("straddling" if straddle else "whole")), -2, "chatter")
    return explore.execute(scn, ())


def _blackhole():
    """peer never completes connect()"""
    scn = rawpeer.RawPeerScenario("requestor", [("silent",)], name="c08-blackhole")
    orig = scn.build

    def build(s):
        s.net.blackhole_ports.add(scen.PORT)
        return orig(s)

    scn.build = build
    scn.check = _check("requestor", ("connect", "never-completes"), -1, "blackhole")
    return explore.execute(scn, ())


def _run(cases):
    out = []
    for role, cut, kind, dr in cases:
        if kind == "chatter":
            r = _chatter(role, cut, dr)
        else:
            r = _blackhole() if kind == "blackhole" else _case(role, cut, kind, dr)
        out.append(((role, cut, kind, dr), r["viol"], r["summary"], r["steps"]))
    return out


def run(ctx: core.Ctx) -> core.Result:
    cases = []
    for role in ("acceptor", "requestor"):
        tot = _total(role)
        offs = range(0, tot + 1) if not ctx.quick else sorted(set(list(range(0, tot + 1, 5)) + _interesting(role)))
        for c in offs:
            cases.append((role, c, "silent", None))
        off = 0
        for _, d, _ in _parts(role):
            off += len(d)
            for dr in (0.2, 0.7, 2.2):
                cases.append((role, off, "dribble", dr))
    cases.append(("requestor", -1, "blackhole", None))
    # a peer that never stops talking while the local side waits for it
    for role, trigger in (("requestor", "echo-unanswered"), ("acceptor", "second-rq"), ("acceptor", "released")):
        for straddle in (False, True):
            cases.append((role, trigger, "chatter", straddle))
    n = core.NPROC * 4
    res = core.pmap(_run, [(cases[i::n],) for i in range(n) if cases[i::n]], seed=ctx.seed)
    viol, seen, steps, outcomes = [], set(), 0, set()
    for part in res:
        for case, vi, summ, st in part:
            steps += st
            outcomes.add(summ)
            for k, what in vi:
                if k not in seen:
                    seen.add(k)
                    viol.append(core.Violation(k, what, {"case": list(case)}))
    idx = ctx.sample_indices(len(cases), 4)
    cov = {
        "evaluations": len(cases),
        "distinct_nontrivial": len({(c[0], c[1], c[2]) for c in cases if c[1] != 0}),
        "rule": "one execution of the real code per (role, byte offset at which the peer falls silent, silent|dribble interval) plus connect-never-completes; non-trivial = the peer sent at least one byte; quick tier: every 5th offset plus all offsets within 7 bytes of a PDU boundary",
        "fault_points_acceptor": _total("acceptor") + 1,
        "fault_points_requestor": _total("requestor") + 1,
        "scheduler_steps": steps,
        "distinct_outcomes": len(outcomes),
        "exhaustive": not ctx.quick,
        "samples": [{"role": cases[i][0], "silent_after_offset": cases[i][1], "kind": cases[i][2], "dribble_interval": cases[i][3]} for i in idx],
    }
    return core.Result("fault_enumeration", cov, viol, assumptions=["prompt virtual time (a timeout fires as soon as no thread can run); default schedule", f"timeouts: {T}; bound after the cut: network + acse + {MARGIN}s", "accepted sockets have no timeout (CPython semantics), connected sockets keep whatever pynetdicom sets"])


def _interesting(role):
    pts = set()
    off = 0
    for _, d, _ in _parts(role):
        for k in range(-7, 8):
            if 0 <= off + k:
                pts.add(off + k)
        off += len(d)
    for k in range(-7, 1):
        pts.add(off + k)
    return sorted(p for p in pts if 0 <= p <= off)


def replay(ctx, data):
    role, cut, kind, dr = data["case"]
    r = _chatter(role, cut, dr) if kind == "chatter" else (_blackhole() if kind == "blackhole" else _case(role, cut, kind, dr))
    print(r["why"], r["summary"])
    for k, w in r["viol"]:
        print("VIOLATED:", k, w)
    return 1 if r["viol"] else 0
