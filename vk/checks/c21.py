"""C21 - handler results map to response status and data as documented.

Every single-step handler result shape (every status of the service's table
as int and as status dataset with optional elements, dataset without Status,
non-int/non-dataset statuses, exceptions before / inside the generator,
unencodable datasets) for C-FIND / C-GET / C-MOVE, every return shape for
C-ECHO, C-STORE and the six DIMSE-N services, and every response dataset of a
pool under four transfer syntaxes, through the real SCP implementations.
"""
from __future__ import annotations

from io import BytesIO

from vk import core, scp
from vk.checks import c20n
from vk.ref import status as refstatus

TS = {"IVRLE": "1.2.840.10008.1.2", "EVRLE": "1.2.840.10008.1.2.1", "EVRBE": "1.2.840.10008.1.2.2", "DEFL": "1.2.840.10008.1.2.1.99"}
EXC_CODE = {"find": 0xC311, "get": 0xC411, "move": 0xC511}


def ds_pool():
    from pydicom.dataset import Dataset
    from pydicom.sequence import Sequence

    out = []
    a = Dataset()
    a.PatientName = "Citizen^Jan"
    a.PatientID = "123"  # odd length
    a.QueryRetrieveLevel = "PATIENT"
    out.append(("strings", a))
    b = Dataset()
    b.PatientID = ""
    b.StudyInstanceUID = "1.2.3.4.5"
    b.NumberOfStudyRelatedInstances = 7
    b.Rows = 512
    b.PatientWeight = 71.5
    out.append(("numbers-empty", b))
    c = Dataset()
    it = Dataset()
    it.CodeValue = "A"
    c.ConceptNameCodeSequence = Sequence([it, Dataset()])
    c.ReferencedSeriesSequence = Sequence([])
    c.ReferencedSOPInstanceUID = "1.2.840.10008.1.2.3"
    out.append(("sequences", c))
    return out


def table_codes(kind):
    import pynetdicom.status as st

    tb = {"find": st.QR_FIND_SERVICE_CLASS_STATUS, "get": st.QR_GET_SERVICE_CLASS_STATUS, "move": st.QR_MOVE_SERVICE_CLASS_STATUS}[kind]
    # one code per (category, range): keep the run small but every category and boundary
    codes = sorted(tb)
    keep = []
    for c in codes:
        if not (0xC000 < c < 0xCFFF) or c in (0xC001, 0xCFFE, 0xC311, 0xC411, 0xC511):
            keep.append(c)
    return keep


def eval_status(kind, code, as_ds):
    """handler yields (status, valid ds) once."""
    st = scp.status_ds(code, ErrorComment="why", OffendingElement=[0x00100020]) if as_ds else code
    items = {"X": lambda: (st, scp.mk_ds(0))}
    rec = scp.run_qr(kind, ("X",), count=1, items=items)
    bad = []
    rs = rec["responses"]
    if rec["exception"]:
        return [("raised", f"SCP raised {rec['exception']}")]
    if not rs:
        return [("no-response", "no response at all")]
    first = rs[0][1]
    if first.get("Status") != code:
        bad.append((f"status-{'ds' if as_ds else 'int'}-{refstatus.category(code)}", f"{kind}: handler yielded status 0x{code:04X}{' in a status dataset' if as_ds else ''}, first response has 0x{(first.get('Status') or 0):04X}"))
    if as_ds and refstatus.category(code) in (refstatus.FAILURE, refstatus.WARNING, refstatus.CANCEL) and first.get("Status") == code:
        if first.get("ErrorComment") != "why":
            bad.append(("status-elements", f"{kind}: ErrorComment of the status dataset not copied for 0x{code:04X} ({first.get('ErrorComment')!r})"))
    return bad


def eval_shape(kind, shape):
    from pydicom.dataset import Dataset

    bad = []
    if shape == "pre-raise":
        rec = scp.run_qr(kind, (), pre="raise")
        want = EXC_CODE[kind]
    elif shape == "gen-raise-first":
        rec = scp.run_qr(kind, (), raise_at=0, count=1)
        want = EXC_CODE[kind]
    elif shape == "gen-raise-second":
        rec = scp.run_qr(kind, ("P_ok",), raise_at=1, count=2)
        want = EXC_CODE[kind]
    elif shape == "ds-nostatus":
        rec = scp.run_qr(kind, ("status_ds_nostatus",), count=1)
        want = 0xC001
    elif shape in ("status-str", "status-none", "status-float"):
        v = {"status-str": "0xFF00", "status-none": None, "status-float": 1.5}[shape]
        rec = scp.run_qr(kind, ("X",), count=1, items={"X": lambda: (v, scp.mk_ds(0))})
        want = 0xC002
    elif shape == "unencodable":
        def mk():
            d = Dataset()
            d.add_new(0x00280010, "US", "not a number")
            return (0xFF00, d)

        rec = scp.run_qr(kind, ("X",), count=1, items={"X": mk})
        want = 0xC312 if kind == "find" else None
    rs = rec["responses"]
    if rec["exception"]:
        return [(f"{shape}-raised", f"{kind}/{shape}: SCP raised {rec['exception']}")]
    sts = [s.get("Status") for _, s in rs]
    if want is not None and want not in sts:
        bad.append((f"{shape}-status", f"{kind}/{shape}: response statuses {[hex(x or 0) for x in sts]}, documented 0x{want:04X}"))
    # the failure response that stands for the handler's exception / malformed result carries no data of
    # an earlier match: a C-FIND response has an Identifier only while Pending
    if kind == "find":
        for _, s in rs:
            st = s.get("Status")
            ident = s.get("Identifier")
            if st is not None and st not in (0xFF00, 0xFF01) and ident and ident[0] == "bytes" and ident[1]:
                bad.append((f"{shape}-stale-identifier", f"{kind}/{shape}: the response with status 0x{st:04X} carries a {len(ident[1])}-byte Identifier (that of an earlier match)"))
    return bad


def eval_dataset(ts_name, ds_name):
    """C-FIND pending identifier must reach the requestor unchanged."""
    from pydicom.uid import UID
    from pynetdicom.dsutils import decode

    ds = dict(ds_pool())[ds_name]
    rec = scp.run_qr("find", ("X",), ts=TS[ts_name], items={"X": lambda: (0xFF00, ds)})
    if rec["exception"]:
        return [("dataset-raised", f"{ts_name}/{ds_name}: SCP raised {rec['exception']}")]
    pend = [s for _, s in rec["responses"] if s.get("Status") == 0xFF00]
    if len(pend) != 1 or not pend[0].get("Identifier"):
        return [("dataset-missing", f"{ts_name}/{ds_name}: pending response without Identifier: {[hex(s.get('Status') or 0) for _, s in rec['responses']]}")]
    u = UID(TS[ts_name])
    back = decode(BytesIO(pend[0]["Identifier"][1]), u.is_implicit_VR, u.is_little_endian, u.is_deflated)
    if back != ds:
        return [(f"dataset-differs-{ts_name}", f"{ts_name}/{ds_name}: identifier at the requestor differs from the handler's dataset")]
    return []


def run(ctx: core.Ctx) -> core.Result:
    viol, seen = [], set()
    n = 0
    shapes = set()

    def add(k, t, rp):
        if k not in seen:
            seen.add(k)
            viol.append(core.Violation(k, t, rp))

    for kind in ("find", "get", "move"):
        for code in table_codes(kind):
            for as_ds in (False, True):
                n += 1
                shapes.add((kind, refstatus.category(code), as_ds))
                for k, t in eval_status(kind, code, as_ds):
                    add(f"{kind}:{k}:{code:04X}" if "status-" in k and "elements" not in k else f"{kind}:{k}", t, {"fn": "status", "kind": kind, "code": code, "as_ds": as_ds})
        for shape in ("pre-raise", "gen-raise-first", "gen-raise-second", "ds-nostatus", "status-str", "status-none", "status-float", "unencodable"):
            n += 1
            shapes.add((kind, shape))
            for k, t in eval_shape(kind, shape):
                add(f"{kind}:{k}", t, {"fn": "shape", "kind": kind, "shape": shape})
    for ts_name in TS:
        for ds_name, _ in ds_pool():
            n += 1
            shapes.add((ts_name, ds_name))
            for k, t in eval_dataset(ts_name, ds_name):
                add(f"find:{k}:{ds_name}", t, {"fn": "dataset", "ts": ts_name, "ds": ds_name})
    nres = c20n.run_all(ctx, which="c21")
    for k, (t, rp) in nres["viols"].items():
        add(k, t, {"fn": "single", "case": rp})
    cov = {
        "evaluations": n + nres["n"],
        "distinct_nontrivial": len(shapes) + nres["shapes"],
        "rule": "QR services: every status of the service's table (0xC000-range thinned to its boundaries) as int and as status dataset, 8 malformed / raising shapes, 3 datasets x 4 transfer syntaxes for the C-FIND identifier; C-ECHO / C-STORE / N-*: the 11 status shapes x 4 dataset shapes + 5 special shapes of vk/checks/c20n.py",
        "exhaustive": True,
        "samples": [{"kind": "find", "status": "0xFF01 as dataset"}, {"kind": "move", "shape": "gen-raise-second"}, {"ts": "DEFL", "dataset": "sequences"}],
    }
    return core.Result("exploration", cov, viol, assumptions=["documented codes: 0xC001 dataset without Status, 0xC002 invalid status type, 0xC311/0xC411/0xC511 handler exception, 0xC312 unencodable identifier, 0xC211 C-STORE handler exception, 0x0110 DIMSE-N handler exception, C-ECHO falls back to 0x0000", "DIMSE provider is a recording double"])


def replay(ctx, data):
    fn = data["fn"]
    if fn == "status":
        print(eval_status(data["kind"], data["code"], data["as_ds"]))
    elif fn == "shape":
        print(eval_shape(data["kind"], data["shape"]))
    elif fn == "dataset":
        print(eval_dataset(data["ts"], data["ds"]))
    else:
        print(c20n.eval_single(**data["case"]))
    return 0
