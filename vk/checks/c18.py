"""C18 - outgoing messages use an accepted context compatible with their
content.

Bounded-exhaustive enumeration of accepted-context sets (1..2, thorough 3
contexts over {CT, MR, UPS-Pull, PatientRootFind} x five transfer syntaxes x
four role combinations) and send operations (C-STORE of CT/MR datasets whose
file-meta transfer syntax ranges over the same five, C-FIND, N-GET with the
UPS-Push substitution) on a real Association with a recording DIMSE provider.
Whenever a message is sent it must be on an accepted context with the right
abstract syntax (or the documented UPS substitution), the SCU role, a
compatible transfer syntax (identical, or both uncompressed with equal byte
order) and its data set must decode under the context's transfer syntax to the
original; otherwise the call must raise.
"""
from __future__ import annotations

import itertools
from io import BytesIO

from vk import core, scp, stubs

CT = "1.2.840.10008.5.1.4.1.1.2"
MR = "1.2.840.10008.5.1.4.1.1.4"
UPS_PUSH = "1.2.840.10008.5.1.4.34.6.1"
UPS_PULL = "1.2.840.10008.5.1.4.34.6.3"
FIND = scp.FIND
TS = {"IVRLE": "1.2.840.10008.1.2", "EVRLE": "1.2.840.10008.1.2.1", "EVRBE": "1.2.840.10008.1.2.2", "DEFL": "1.2.840.10008.1.2.1.99", "JPEG": "1.2.840.10008.1.2.4.50"}
ROLES = {"scu": (True, False), "scp": (False, True), "both": (True, True), "none": (False, False)}


def ts_props(name):
    # (little endian, compressed)  - transcribed from PS3.5 Annex A
    return {"IVRLE": (True, False), "EVRLE": (True, False), "EVRBE": (False, False), "DEFL": (True, False), "JPEG": (True, True)}[name]


def compatible(ds_ts, cx_ts):
    if ds_ts == cx_ts:
        return True
    a, b = ts_props(ds_ts), ts_props(cx_ts)
    return not a[1] and not b[1] and a[0] == b[0]


def mk_ds(sop, ts_name):
    from pydicom.dataset import Dataset, FileMetaDataset

    ds = Dataset()
    ds.SOPClassUID = sop
    ds.SOPInstanceUID = "1.2.3.4"
    ds.PatientName = "Citizen^Jan"
    ds.Rows = 4
    ds.file_meta = FileMetaDataset()
    ds.file_meta.TransferSyntaxUID = TS[ts_name]
    return ds


def eval_case(cxs, op):
    """cxs: tuple of (abstract, ts_name, role_name) -> contexts 1,3,5.  op: ('store', sop, ts_name) | ('find',) | ('nget', class_uid)"""
    from pydicom.uid import UID
    from pynetdicom.dsutils import decode

    contexts = [(2 * i + 1, ab, TS[t], ROLES[r][0], ROLES[r][1]) for i, (ab, t, r) in enumerate(cxs)]
    assoc = stubs.make_assoc("requestor", contexts=contexts)
    assoc._is_paused = True
    from pynetdicom import dimse_primitives as dp

    def rsp(cls):
        r = cls()
        r.MessageIDBeingRespondedTo = 1
        r.Status = 0
        return (1, r)

    bad = []
    raised = None
    try:
        if op[0] == "store":
            ds = mk_ds(op[1], op[2])
            assoc.dimse.script = [rsp(dp.C_STORE)]
            assoc.send_c_store(ds)
        elif op[0] == "find":
            assoc.dimse.script = [rsp(dp.C_FIND)]
            list(assoc.send_c_find(scp.mk_ds(0, False), FIND))
        elif op[0] == "nget":
            assoc.dimse.script = [rsp(dp.N_GET)]
            assoc.send_n_get([(0x0010, 0x0010)], op[1], "1.2.3")
    except (ValueError, AttributeError, RuntimeError) as exc:
        raised = f"{type(exc).__name__}"
    sent = assoc.dimse.sent_raw
    if raised and sent:
        bad.append(("raised-after-send", f"raised {raised} but a message was sent"))
    for cx_id, prim in sent:
        acc = {c[0]: c for c in contexts}
        if cx_id not in acc:
            bad.append(("context-not-accepted", f"sent on context {cx_id}, accepted {sorted(acc)}"))
            continue
        _, ab, ts, as_scu, as_scp = acc[cx_id]
        ts_name = next(k for k, v in TS.items() if v == ts)
        if op[0] == "store":
            want_ab = op[1]
            if ab != want_ab:
                bad.append(("abstract-syntax", f"C-STORE of {want_ab} sent on context {cx_id} with abstract syntax {ab}"))
            if not compatible(op[2], ts_name):
                bad.append((f"transfer-syntax-{op[2]}-on-{ts_name}", f"dataset with transfer syntax {op[2]} sent on a {ts_name} context"))
            else:
                u = UID(ts)
                try:
                    back = decode(BytesIO(prim.DataSet.getvalue()), u.is_implicit_VR, u.is_little_endian, u.is_deflated)
                    orig = mk_ds(op[1], op[2])
                    if back != orig:
                        bad.append((f"dataset-bytes-{ts_name}", f"bytes sent on the {ts_name} context do not decode to the dataset"))
                except Exception as exc:
                    bad.append((f"dataset-undecodable-{ts_name}", f"bytes sent on the {ts_name} context cannot be decoded: {exc}"))
        elif op[0] == "find":
            if ab != FIND:
                bad.append(("abstract-syntax", f"C-FIND sent on context with abstract syntax {ab}"))
        elif op[0] == "nget":
            ok = ab == op[1] or (op[1] == UPS_PUSH and ab == UPS_PULL)
            if not ok:
                bad.append(("abstract-syntax", f"N-GET for {op[1]} sent on context with abstract syntax {ab}"))
        if not as_scu:
            bad.append(("role", f"{op[0]} sent on context {cx_id} where the local side is not SCU (as_scu={as_scu}, as_scp={as_scp})"))
    return bad, bool(sent)


def gen_cases(quick):
    abstracts = [CT, MR, UPS_PULL, FIND]
    singles = [(ab, t, r) for ab in abstracts for t in TS for r in ROLES]
    ops = [("store", sop, t) for sop in (CT, MR) for t in TS] + [("find",), ("nget", UPS_PUSH), ("nget", UPS_PULL)]
    for c in singles:
        for op in ops:
            yield (c,), op
    pairs = [(ab, t, r) for ab in (CT, MR, UPS_PULL) for t in TS for r in ("scu", "scp", "none")]
    for c1, c2 in itertools.product(pairs, repeat=2):
        for op in ops:
            if op[0] == "store" and op[1] not in (c1[0], c2[0]):
                continue
            if op[0] == "find":
                continue
            yield (c1, c2), op
    if not quick:
        small = [(ab, t, r) for ab in (CT, MR) for t in ("IVRLE", "EVRBE", "JPEG", "DEFL") for r in ("scu", "scp")]
        for cs in itertools.product(small, repeat=3):
            for op in [("store", CT, t) for t in TS]:
                yield cs, op


def _chunk(cases):
    out = {}
    nsent = 0
    for cxs, op in cases:
        bad, sent = eval_case(cxs, op)
        nsent += sent
        for k, t in bad:
            out.setdefault(f"{op[0]}:{k}", (f"contexts {cxs}, op {op}: {t}", {"cxs": [list(c) for c in cxs], "op": list(op)}))
    return len(cases), out, nsent


def run(ctx: core.Ctx) -> core.Result:
    cases = list(gen_cases(ctx.quick))
    n = core.NPROC * 4
    res = core.pmap(_chunk, [(cases[i::n],) for i in range(n) if cases[i::n]], seed=ctx.seed)
    viol, seen, tot, nsent = [], set(), 0, 0
    for cn, bad, ns in res:
        tot += cn
        nsent += ns
        for k, (t, rp) in bad.items():
            if k not in seen:
                seen.add(k)
                viol.append(core.Violation(k, t, rp))
    idx = ctx.sample_indices(len(cases), 5)
    cov = {
        "evaluations": tot,
        "distinct_nontrivial": nsent,
        "rule": "accepted-context sets of size 1 (4 abstract syntaxes x 5 transfer syntaxes x 4 role combinations), 2 (45^2) and in the thorough tier 3 (16^3), x operations {C-STORE of CT/MR x 5 file-meta transfer syntaxes, C-FIND, N-GET UPS Push/Pull}; non-trivial = a message was actually sent (the call did not raise)",
        "exhaustive": True,
        "samples": [{"accepted": [list(c) for c in cases[i][0]], "operation": list(cases[i][1])} for i in idx],
    }
    return core.Result("exploration", cov, viol, assumptions=["transfer-syntax properties (byte order, compression) transcribed from PS3.5 Annex A", "datasets are built from scratch (no original encoding); the peer's response is scripted"])


def replay(ctx, data):
    print(eval_case(tuple(tuple(c) for c in data["cxs"]), tuple(data["op"])))
    return 0
