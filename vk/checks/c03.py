"""C03 - PDU framing is independent of how TCP splits the byte stream.

A raw peer sends  RQ | (wait AC) | E1 E2a E2b E3 RELEASE-RQ  to a real
acceptor, where the byte stream is cut at EVERY position (one cut; all pairs
of cuts in the thorough tier), with inter-chunk delays of 0 and 1 s (below
every timeout), and - separately - the connection is closed at every byte
offset.  The received-PDU notifications, the bytes handed to the decoder, the
handler invocations and the outcome must not depend on the segmentation; a
close inside a PDU must be reported as a closed connection.
"""
from __future__ import annotations

import itertools

from vk import core, explore, peer as P, rawpeer, monitors as M

E1 = P.pdata(1, P.command_set(0x0030, msg_id=7))
_cs8 = P.command_set(0x0030, msg_id=8)
E2a = P.pdata(1, _cs8[:20], command=True, last=False)
E2b = P.pdata(1, _cs8[20:], command=True, last=True)
_cs9 = P.command_set(0x0030, msg_id=9)


def _two_pdv():
    import struct

    a = bytes([1, 1]) + _cs9[:30]
    b = bytes([1, 3]) + _cs9[30:]
    body = struct.pack(">L", len(a)) + a + struct.pack(">L", len(b)) + b
    return P._pdu(4, body)


E3 = _two_pdv()
RQ = P.assoc_rq()
PARTS_B = [E1, E2a, E2b, E3, P.RELEASE_RQ]
STREAM_B = b"".join(PARTS_B)
NAMES_B = ["P_DATA_TF", "P_DATA_TF", "P_DATA_TF", "P_DATA_TF", "A_RELEASE_RQ"]


def _big_rq(n=100):
    import struct

    pcs = b"".join(P._item(0x20, bytes([2 * i + 1, 0, 0, 0]) + P._item(0x30, P.scen.VERIFICATION.encode()) + P._item(0x40, P.scen.IVRLE.encode())) for i in range(n))
    return P._pdu(1, struct.pack(">HH", 1, 0) + P._ae("ACC") + P._ae("PEER") + b"\x00" * 32 + P.APP_CTX + pcs + P.USER_INFO)


BIG_RQ = _big_rq()  # > 4096 bytes: longer than one recv() buffer of AssociationSocket.recv


def _chunks(data, cuts):
    pts = [0] + sorted(set(c for c in cuts if 0 < c < len(data))) + [len(data)]
    return [data[a:b] for a, b in zip(pts, pts[1:]) if b > a]


def _script(cuts_a, cuts_b, delay, close_at=None, glued=False, big=False):
    sc = []
    if big:
        for ch in _chunks(BIG_RQ, cuts_a):
            sc.append(("send", ch))
        return sc + [("expect", 1), ("send", P.RELEASE_RQ), ("expect", 2), ("close",)]
    for i, ch in enumerate(_chunks(RQ, cuts_a)):
        if i and delay:
            sc.append(("sleep", delay))
        sc.append(("send", ch))
    sc.append(("expect", 1))
    if close_at is not None or glued:
        # framing only: the release request is glued to the pipelined data
        data = STREAM_B if close_at is None else STREAM_B[:close_at]
        for i, ch in enumerate(_chunks(data, cuts_b)):
            if i and delay:
                sc.append(("sleep", delay))
            sc.append(("send", ch))
        if close_at is not None:
            sc.append(("close",))
        else:
            sc += [("expect", 3), ("close",)]
        return sc
    nb = len(STREAM_B) - len(P.RELEASE_RQ)
    for i, ch in enumerate(_chunks(STREAM_B[:nb], [c for c in cuts_b if c < nb])):
        if i and delay:
            sc.append(("sleep", delay))
        sc.append(("send", ch))
    sc.append(("expect", 4))  # AC + 3 echo responses
    for i, ch in enumerate(_chunks(P.RELEASE_RQ, [c - nb for c in cuts_b if c > nb])):
        if i and delay:
            sc.append(("sleep", delay))
        sc.append(("send", ch))
    sc += [("expect", 5), ("close",)]
    return sc


def _case(kind, cuts_a, cuts_b, delay, close_at, prefix=()):
    glued = kind.startswith("glued")
    big = kind.startswith("big")
    scn = rawpeer.RawPeerScenario("acceptor", _script(cuts_a, cuts_b, delay, close_at, glued, big), name="c03")
    out = {}

    def check(s, ctx, why):
        v = []
        names, data, fsm = rawpeer.local_recv_log(ctx)
        for th, k, msg in M.thread_exceptions(s):
            v.append((f"uncaught-{k}-in-{th}", f"uncaught exception in {th}: {msg}"))
        if why != "terminated":
            v.append((f"not-terminated-{why}", f"ended {why}: {s.describe_blocked()}"))
            return v
        if big:
            if names != ["A_ASSOCIATE_RQ", "A_RELEASE_RQ"] or data != BIG_RQ + P.RELEASE_RQ:
                v.append(("big-pdu", f"{len(BIG_RQ)}-byte A-ASSOCIATE-RQ cut at {cuts_a[:6]}: EVT_PDU_RECV {names}, {len(data)} bytes decoded"))
            got = [t for t, _ in ctx["peer"]["pdus"]]
            if got != [2, 6]:
                v.append(("big-responses", f"{len(BIG_RQ)}-byte A-ASSOCIATE-RQ cut at {cuts_a[:6]}: peer received PDU types {got}, expected [2, 6]"))
        elif close_at is None:
            want = ["A_ASSOCIATE_RQ"] + NAMES_B
            if names != want:
                v.append(("pdu-sequence", f"EVT_PDU_RECV {names}, peer sent {want}"))
            if data != RQ + STREAM_B:
                v.append(("pdu-bytes", f"bytes handed to the decoder differ from the stream sent ({len(data)} vs {len(RQ + STREAM_B)})"))
            calls = [c[1] for c in ctx["handler_calls"]]
            if glued:
                pass  # pipelining requests in front of a release request is the peer's problem; only framing is judged
            elif calls != [7, 8, 9]:
                v.append(("handler-calls", f"C-ECHO handler saw message IDs {calls}, expected [7, 8, 9]"))
            got = [t for t, _ in ctx["peer"]["pdus"]]
            if not glued and got != [2, 4, 4, 4, 6]:
                v.append(("responses", f"peer received PDU types {got}, expected [2,4,4,4,6]"))
            o = M.scen.assoc_outcome(ctx["acc_assocs"][0]) if ctx["acc_assocs"] else None
            if not o or not o["released"] or o["aborted"]:
                v.append(("outcome", f"association did not end released: {o}"))
            if any(e[1] in ("Evt19", "Evt17") and e[0] not in ("Sta13",) for e in fsm):
                v.append(("spurious-event", f"Evt17/Evt19 raised on an intact stream: {[e for e in fsm if e[1] in ('Evt17', 'Evt19')]}"))
        else:
            # complete PDUs inside the prefix
            n_full, off = 0, 0
            for part in PARTS_B:
                if off + len(part) <= close_at:
                    n_full += 1
                    off += len(part)
                else:
                    break
            partial = close_at - off
            want = ["A_ASSOCIATE_RQ"] + NAMES_B[:n_full]
            if names != want:
                v.append((f"pdu-sequence-after-close", f"closed at offset {close_at} ({n_full} complete PDUs + {partial} bytes): EVT_PDU_RECV {names}, expected {want}"))
            if data != RQ + STREAM_B[:off]:
                v.append(("pdu-bytes-after-close", f"closed at offset {close_at}: decoder was handed {len(data)} bytes, complete PDUs are {len(RQ) + off}"))
            if any(e[1] == "Evt19" for e in fsm):
                v.append(("truncated-as-invalid", f"closed at offset {close_at}: a truncated PDU was classified as invalid (Evt19)"))
            if n_full < 5 and not any(e[1] == "Evt17" for e in fsm):
                v.append(("close-not-reported", f"closed at offset {close_at}: no Evt17 (transport closed) reached the state machine"))
        return v

    scn.check = lambda s, ctx, why: check(s, ctx, why)
    r = explore.execute(scn, prefix)
    return r


def _run_cases(cases):
    out = []
    for kind, ca, cb, delay, close_at in cases:
        r = _case(kind, ca, cb, delay, close_at)
        out.append(((kind, ca, cb, delay, close_at), r["viol"], r["summary"], r["steps"]))
    return out


def run(ctx: core.Ctx) -> core.Result:
    cases = []
    LA, LB = len(RQ), len(STREAM_B)
    for p in range(1, LA):
        cases.append(("cutA", (p,), (), 0, None))
    for p in range(1, LB):
        cases.append(("cutB", (), (p,), 0, None))
        cases.append(("cutB-delay", (), (p,), 1.0, None))
        cases.append(("glued", (), (p,), 0, None))
    for p in range(1, LA, 7):
        cases.append(("cutA-delay", (p,), (), 1.0, None))
    LBIG = len(BIG_RQ)
    for p in sorted(set(list(range(1, LBIG, 53)) + [4095, 4096, 4097, 4101, 4102, 4103, LBIG - 1])):
        cases.append(("bigA", (p,), (), 0, None))
    for step in (512, 1460, 4096):
        cases.append(("bigA-uniform", tuple(range(step, LBIG, step)), (), 0, None))
    # one byte at a time, and typical MSS-like sizes
    for step in (1, 2, 3, 5, 6, 7, 64):
        cases.append(("uniform", tuple(range(step, LA, step)), tuple(range(step, LB, step)), 0, None))
    for p in range(0, LB + 1):
        cases.append(("close", (), (), 0, p))
        cases.append(("close-cut", (), (max(1, p // 2),), 0, p))
    if not ctx.quick:
        for a, b in itertools.combinations(range(1, LB), 2):
            cases.append(("cutB2", (), (a, b), 0, None))
    n = core.NPROC * 4
    parts = [cases[i::n] for i in range(n)]
    res = core.pmap(_run_cases, [(p,) for p in parts if p], seed=ctx.seed)
    viol = []
    steps = 0
    outcomes = set()
    seen = set()
    for part in res:
        for case, vi, summ, st in part:
            steps += st
            outcomes.add((case[0], summ))
            for k, what in vi:
                key = f"{case[0]}:{k}"
                if key not in seen:
                    seen.add(key)
                    viol.append(core.Violation(key, f"{case}: {what}", {"case": list(case)}))
    idx = ctx.sample_indices(len(cases), 4)
    cov = {
        "states": steps,
        "transitions": len(cases),
        "traces_validated_against_impl": len(cases),
        "executions": len(cases),
        "stream_lengths": {"RQ": LA, "data+release": LB},
        "single_cut_positions": (LA - 1) + (LB - 1),
        "close_offsets": LB + 1,
        "pair_cuts": 0 if ctx.quick else (LB - 1) * (LB - 2) // 2,
        "distinct_outcomes": len(outcomes),
        "exhaustive": True,
        "samples": [{"kind": cases[i][0], "cuts_in_RQ": list(cases[i][1]), "cuts_in_data": list(cases[i][2])[:8], "delay": cases[i][3], "close_at": cases[i][4]} for i in idx],
        "explanation": "every execution runs the real acceptor (provider + association threads) under the simulated transport; states = scheduler steps",
    }
    # the simulated transport / queue / event / thread doubles against the OS (vk/fidelity.py)
    notes = []
    try:
        from vk import fidelity

        n_seq, bad = fidelity.run_all()
        cov["fidelity_sequences"] = n_seq
        cov["fidelity_sequences_agreeing_with_os"] = n_seq - len(bad)
        for name, real, simr in bad:
            notes.append(f"HARNESS-WARNING fidelity mismatch in {name}: OS {real} vs simulator {simr}")
            print(notes[-1])
    except Exception as exc:  # real sockets unavailable: not a verdict about the property
        notes.append(f"fidelity self-test could not run: {type(exc).__name__}: {exc}")
    return core.Result("model_checking", cov, viol, notes=notes, assumptions=["default (prompt-time) schedule; chunk arrival vs reactor iteration is varied by the inter-chunk delay, not by scheduler deviations", "recv returns at most one sent segment per call (segment boundaries are preserved by the simulated transport)"])


def replay(ctx, data):
    c = data["case"]
    r = _case(c[0], tuple(c[1]), tuple(c[2]), c[3], c[4])
    print(r["why"], r["summary"], r["viol"])
    return 1 if r["viol"] else 0
