"""C09 - protocol timers measure elapsed time, unaffected by wall-clock changes.

(1) Explicit-state BFS over all operation sequences on the real Timer
    (start / stop / restart / set timeout / advance both clocks / step the
    wall clock only) up to a depth, de-duplicated on the canonical timer
    state; at every state `expired` and `remaining` are compared with the
    elapsed-time reference model.
(2) The same steps applied to the ARTIM and network-idle timers of a real,
    running association (idle association, peer silent in Sta2 / Sta13):
    a wall-clock step of +-1 h at several instants must change neither the
    outcome nor the (virtual, monotonic) instant at which everything ends.
"""
from __future__ import annotations

import collections

from vk import core, explore, lifecycle, monitors as M, scen, sim

OPS = [("start",), ("stop",), ("restart",)] + [("timeout", v) for v in (None, 0, 1, 2)] + [("advance", d) for d in (0.5, 1.0, 1.5)] + [("wall", d) for d in (1.0, -1.0, 3600.0, -3600.0)]


class Clock:
    def __init__(self):
        self.mono = 100.0
        self.wall = 1.7e9

    def time(self):
        return self.wall

    def monotonic(self):
        return self.mono

    def perf_counter(self):
        return self.mono

    def sleep(self, d):
        pass


class Ref:
    """Elapsed-time timer over the monotonic clock (DESIGN.md A.5)."""

    def __init__(self, timeout):
        self.timeout, self.started, self.stopped = timeout, None, None

    def apply(self, op, clk):
        if op[0] in ("start", "restart"):
            self.started, self.stopped = clk.mono, None
        elif op[0] == "stop":
            if self.started is not None:  # stopping a timer that never ran changes nothing
                self.stopped = clk.mono
        elif op[0] == "timeout":
            self.timeout = op[1]

    def remaining(self, clk):
        if self.timeout is None:
            return 1
        if self.started is None:
            return self.timeout
        end = self.stopped if self.stopped is not None else clk.mono
        return self.timeout - (end - self.started)

    def expired(self, clk):
        return self.timeout is not None and self.started is not None and self.remaining(clk) < 0


def _run_seq(seq):
    """Replay a sequence on a fresh real Timer + reference; return
    (canonical state, mismatch or None)."""
    import pynetdicom.timer as tmod

    clk = Clock()
    old = tmod.time
    tmod.time = clk
    try:
        t = tmod.Timer(1)
        ref = Ref(1)
        for i, op in enumerate(seq):
            if op[0] == "start":
                t.start()
            elif op[0] == "stop":
                t.stop()
            elif op[0] == "restart":
                t.restart()
            elif op[0] == "timeout":
                t.timeout = op[1]
            elif op[0] == "advance":
                clk.mono += op[1]
                clk.wall += op[1]
            elif op[0] == "wall":
                clk.wall += op[1]
            ref.apply(op, clk)
            got = (bool(t.expired), t.remaining)
            want = (ref.expired(clk), ref.remaining(clk))
            if got[0] != want[0] or abs(got[1] - want[1]) > 1e-6:
                return None, (i, got, want)
        key = (ref.timeout, None if ref.started is None else round(clk.mono - ref.started, 3), None if ref.stopped is None else round(ref.stopped - ref.started, 3), round(clk.wall - clk.mono - (1.7e9 - 100.0), 3))
        # the implementation's own state is part of the key: two sequences may only be merged when
        # the real timer is in the same state as well (clock readings are taken relative to now)
        impl = []
        for k, v in sorted(t.__dict__.items()):
            if isinstance(v, float) or (isinstance(v, int) and not isinstance(v, bool)):
                v = round(v - clk.wall, 3) if v > 1e8 else (round(v - clk.mono, 3) if v >= 100.0 else v)
            impl.append((k, v))
        return key + (tuple(impl),), None
    finally:
        tmod.time = old


def bfs(depth):
    seen = {}
    frontier = [()]
    n_seq = n_trans = 0
    viols = {}
    for d in range(depth + 1):
        nxt = []
        for seq in frontier:
            n_seq += 1
            key, bad = _run_seq(seq)
            if bad is not None:
                i, got, want = bad
                k = f"timer:{seq[i][0]}-after-" + "+".join(sorted({o[0] for o in seq[:i]}))
                viols.setdefault(k, (f"sequence {list(seq[: i + 1])}: (expired, remaining) = {got}, elapsed-time reference says {want}", list(seq[: i + 1])))
                continue
            if key in seen:
                continue
            seen[key] = seq
            if d < depth:
                for op in OPS:
                    n_trans += 1
                    nxt.append(seq + (op,))
        frontier = nxt
    return seen, n_seq, n_trans, viols


# ---- (2) running associations under wall-clock steps -----------------------


class SteppedIdle(lifecycle.Lifecycle):
    """idle|none life cycle with the wall clock stepped at `at` seconds."""

    def __init__(self, step, at, req="idle", acc="none"):
        super().__init__(req, acc, monitors=[])
        self.step, self.at = step, at
        self.name = f"stepped[{req}|{acc},step={step},at={at}]"

    def build(self, s):
        ctx = super().build(s)
        if self.step:
            def stepper():
                s.block("clock.sleep", None, None, timeout=self.at)
                s.wall_offset += self.step

            s.spawn(stepper, "clock-stepper")
        return ctx

    def summary(self, s, ctx, why):
        base = super().summary(s, ctx, why)
        t_end = max([getattr(t, "t_exit", s.t0) for t in s.threads if t.name != "clock-stepper"] + [s.t0])
        return (base[0], base[1], base[2], round(t_end - s.t0, 3))


def _assoc_cases(cases):
    out = []
    for req, acc, step, at in cases:
        r = explore.execute(SteppedIdle(step, at, req, acc), ())
        out.append(((req, acc, step, at), r["summary"], r["steps"]))
    return out


def run(ctx: core.Ctx) -> core.Result:
    depth = ctx.pick(5, 7)
    seen, n_seq, n_trans, viols = bfs(depth)
    viol = [core.Violation(k, what, {"kind": "timer", "seq": [list(o) for o in seq]}) for k, (what, seq) in viols.items()]
    # running associations
    cases = []
    pairs = [("idle", "none"), ("release", "none"), ("echo-release", "release"), ("abort", "none")]
    for req, acc in pairs:
        cases.append((req, acc, 0, 0))
        for step in (3600.0, -3600.0, 1.0, -1.0):
            for at in (0.0005, 0.5, 1.9, 2.5, 4.9):
                cases.append((req, acc, step, at))
    n = core.NPROC * 2
    res = core.pmap(_assoc_cases, [(cases[i::n],) for i in range(n) if cases[i::n]], seed=ctx.seed)
    flat = {c: (summ, st) for part in res for c, summ, st in part}
    steps = sum(st for _, st in flat.values())
    for (req, acc, step, at), (summ, _) in flat.items():
        base = flat[(req, acc, 0, 0)][0]
        if step and summ != base:
            k = f"assoc[{req}|{acc}]:wall-step-{'forward' if step > 0 else 'back'}"
            viol.append(core.Violation(k, f"life cycle [{req}|{acc}]: wall clock stepped by {step:+.0f}s at t={at}s: (end, requestor, acceptor, end time) = {summ}, without the step {base}", {"kind": "assoc", "req": req, "acc": acc, "step": step, "at": at}))
    # the protocol timers must be plain Timers (so that (1) covers them)
    from pynetdicom.timer import Timer
    from vk import stubs

    a = stubs.make_assoc("acceptor")
    if type(a.dul.artim_timer) is not Timer or type(a.dul._idle_timer) is not Timer:
        viol.append(core.Violation("dul-timer-class", "the ARTIM / idle timers are not pynetdicom.timer.Timer instances", {}))
    cov = {
        "states": len(seen),
        "transitions": n_trans,
        "traces_validated_against_impl": n_seq + len(cases),
        "timer_sequences_executed": n_seq,
        "depth": depth,
        "operations": [list(o) for o in OPS],
        "association_runs": len(cases),
        "scheduler_steps": steps,
        "samples": [{"canonical_state (timeout, elapsed, stopped_after, wall_skew)": list(k), "first_sequence": [list(o) for o in v]} for k, v in list(seen.items())[:: max(1, len(seen) // 4)][:4]],
        "explanation": "states = canonical timer states (timeout, monotonic elapsed since start, stop offset, accumulated wall-clock skew) reached by BFS on the real Timer; each sequence is executed on the implementation and compared with the reference at every step",
    }
    return core.Result("model_checking", cov, viol, assumptions=["time enters pynetdicom.timer only through the module's `time` reference", "reference = elapsed monotonic time (DESIGN.md A.5); comparisons tolerate 1e-6"])


def replay(ctx, data):
    if data.get("kind") == "timer":
        print(_run_seq(tuple(tuple(o) for o in data["seq"])))
    else:
        for step in (0, data["step"]):
            r = explore.execute(SteppedIdle(step, data["at"], data["req"], data["acc"]), ())
            print(step, r["summary"])
    return 0
