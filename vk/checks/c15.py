"""C15 - DIMSE fragmentation respects the peer's maximum length and
reassembles exactly.

Bounded-exhaustive enumeration over maximum lengths, command-set lengths,
EVERY data-set length up to 3 fragments + 1 for the small maxima (boundary
lengths for the large ones), in-memory and file-backed data sets, through the
real encode_msg; then every grouping of the produced fragments into P-DATA
primitives is fed to the real decode_msg.
"""
from __future__ import annotations

import itertools
import os
import tempfile
from io import BytesIO
from pathlib import Path

from vk import core

CT = "1.2.840.10008.5.1.4.1.1.2"
SMALL = [7, 8, 9, 10, 13, 16, 64]
LARGE = [16382, 65542, 2**32 - 1]


def _data(n, salt=0):
    return bytes((i * 7 + 3 + salt + (i >> 8)) % 251 for i in range(n))


def _compositions(n, limit=64):
    """All ways to cut a sequence of n fragments into consecutive groups."""
    if n <= 0:
        return [[]]
    if 2 ** (n - 1) <= limit:
        out = []
        for mask in range(2 ** (n - 1)):
            groups, cur = [], [0]
            for i in range(1, n):
                if mask >> (i - 1) & 1:
                    groups.append(cur)
                    cur = [i]
                else:
                    cur.append(i)
            groups.append(cur)
            out.append(groups)
        return out
    one = [[i] for i in range(n)]
    allin = [list(range(n))]
    pairs = [list(range(i, min(n, i + 2))) for i in range(0, n, 2)]
    triple_off = [[0]] + [list(range(i, min(n, i + 3))) for i in range(1, n, 3)]
    return [one, allin, pairs, triple_off]


def eval_case(max_len, uid_len, ds_len, backing, tmpdir):
    from pynetdicom.dimse_messages import C_STORE_RQ, DIMSEMessage
    from pynetdicom.dimse_primitives import C_STORE
    from pynetdicom.dsutils import encode
    from pynetdicom.pdu import P_DATA_TF
    from pynetdicom.pdu_primitives import P_DATA

    bad = []
    prim = C_STORE()
    prim.MessageID = 1
    prim.AffectedSOPClassUID = CT
    prim.AffectedSOPInstanceUID = "1." + "2" * max(0, uid_len - 2)
    prim.Priority = 2
    data = _data(ds_len, uid_len)
    tag = f"{backing}"
    if backing == "memory":
        prim.DataSet = BytesIO(data)
    else:
        off = 132 + (uid_len % 5)
        path = os.path.join(tmpdir, f"ds_{os.getpid()}.bin")
        with open(path, "wb") as f:
            f.write(b"\xee" * off + data)
        prim._dataset_path = (Path(path), off)
    msg = C_STORE_RQ()
    msg.primitive_to_message(prim)
    want_cmd = encode(msg.command_set, True, True)
    try:
        pdatas = list(msg.encode_msg(1, max_len))
    except Exception as exc:
        return [(f"{tag}:encode-raised-{type(exc).__name__}", f"encode_msg raised {type(exc).__name__}: {exc}")]
    frags = []  # (is_command, last, bytes)
    for p in pdatas:
        pdvs = p.presentation_data_value_list
        if not pdvs:
            bad.append((f"{tag}:empty-pdata", "P-DATA without PDVs"))
        tot = 0
        for cx, b in pdvs:
            if cx != 1:
                bad.append((f"{tag}:context-id", f"PDV on context {cx}"))
            tot += 4 + 1 + len(b)
            frags.append((bool(b[0] & 1), bool(b[0] & 2), bytes(b[1:])))
        if max_len and tot > max_len:
            bad.append((f"{tag}:pdv-list-too-long", f"PDV list of {tot} bytes exceeds the maximum length {max_len}"))
        enc = P_DATA_TF(p).encode()
        if max_len and len(enc) - 6 > max_len:
            bad.append((f"{tag}:pdu-too-long", f"P-DATA-TF of {len(enc) - 6} bytes exceeds {max_len}"))
    kinds = [f[0] for f in frags]
    ncmd = sum(kinds)
    if kinds != [True] * ncmd + [False] * (len(kinds) - ncmd):
        bad.append((f"{tag}:order", "command fragments are not all before data fragments"))
    cmdf = [f for f in frags if f[0]]
    dsf = [f for f in frags if not f[0]]
    for name, part in (("command", cmdf), ("data", dsf)):
        lasts = [f[1] for f in part]
        if part and (lasts[:-1] != [False] * (len(part) - 1) or not lasts[-1]):
            bad.append((f"{tag}:last-flag-{name}", f"last-fragment flags of the {name} part: {lasts[-4:]}"))
    if b"".join(f[2] for f in cmdf) != want_cmd:
        bad.append((f"{tag}:command-bytes", "command fragments do not concatenate to the encoded command set"))
    got_ds = b"".join(f[2] for f in dsf)
    if got_ds != data:
        bad.append((f"{tag}:data-bytes", f"data fragments carry {len(got_ds)} bytes, data set has {len(data)} (first difference at {_first_diff(got_ds, data)})"))
    announces = msg.command_set.CommandDataSetType != 0x0101
    if announces != bool(dsf):
        bad.append((f"{tag}:announce-mismatch", f"CommandDataSetType says data set {'follows' if announces else 'absent'} but {len(dsf)} data fragments are sent"))
    if bad:
        return bad
    # reassembly for every grouping
    n_group = 0
    for groups in _compositions(len(frags)):
        n_group += 1
        rx = DIMSEMessage()
        done_at = None
        for gi, g in enumerate(groups):
            p = P_DATA()
            p.presentation_data_value_list = [[1, bytes([(1 if frags[i][0] else 0) | (2 if frags[i][1] else 0)]) + frags[i][2]] for i in g]
            try:
                r = rx.decode_msg(p)
            except Exception as exc:
                bad.append((f"{tag}:decode-raised-{type(exc).__name__}", f"decode_msg raised {type(exc).__name__}: {exc} (grouping {groups[:4]})"))
                break
            if r and done_at is None:
                done_at = gi
        else:
            if done_at != len(groups) - 1:
                bad.append((f"{tag}:completion", f"decode_msg reported completion at group {done_at} of {len(groups)}"))
            elif rx.encoded_command_set.getvalue() != want_cmd or encode(rx.command_set, True, True) != want_cmd:
                bad.append((f"{tag}:reassembled-command", "reassembled command set differs"))
            elif (rx.data_set.getvalue() if rx.data_set is not None else b"") != data:
                bad.append((f"{tag}:reassembled-data", f"reassembled data set has {len(rx.data_set.getvalue())} bytes, sent {len(data)}"))
        if bad:
            break
    return bad


def _first_diff(a, b):
    for i, (x, y) in enumerate(zip(a, b)):
        if x != y:
            return i
    return min(len(a), len(b))


def gen_cases(quick):
    uid_lens = [3, 4, 17, 64] if quick else list(range(3, 16)) + [63, 64]
    for m in SMALL:
        f = m - 6
        top = 3 * f + 1
        for ds in range(0, top + 1):
            for u in uid_lens if ds in (0, 1, f, f + 1) else uid_lens[:2]:
                for backing in ("memory", "file"):
                    yield (m, u, ds, backing)
    for m in [0] + LARGE:
        f = (m - 6) if m else 20000
        pts = {0, 1, 2, 1000}
        if m and m < 2**31:
            for k in (1, 2, 3):
                for d in (-1, 0, 1, 3, 5, 6, 7):
                    pts.add(k * f + d)
                pts.add(k * m)  # inside the window (k*(m-6), k*m]
                pts.add(k * m - 1)
        for ds in sorted(p for p in pts if p >= 0):
            for backing in ("memory", "file"):
                yield (m, uid_lens[1], ds, backing)


def _chunk(cases):
    tmp = tempfile.mkdtemp(prefix="vk-c15-")
    out = {}
    n = 0
    try:
        for c in cases:
            n += 1
            for k, t in eval_case(*c, tmp):
                key = f"max{'0' if c[0] == 0 else ('small' if c[0] <= 64 else 'large')}:{k}"
                out.setdefault(key, (f"max_length={c[0]} uid_len={c[1]} data_set_len={c[2]} {c[3]}: {t}", list(c)))
    finally:
        for fn in os.listdir(tmp):
            os.unlink(os.path.join(tmp, fn))
        os.rmdir(tmp)
    return n, out


def run(ctx: core.Ctx) -> core.Result:
    cases = list(gen_cases(ctx.quick))
    n = core.NPROC * 4
    res = core.pmap(_chunk, [(cases[i::n],) for i in range(n) if cases[i::n]], seed=ctx.seed)
    viol, seen = [], set()
    tot = 0
    for cn, bad in res:
        tot += cn
        for k, (t, rp) in bad.items():
            if k not in seen:
                seen.add(k)
                viol.append(core.Violation(k, t, {"case": rp}))
    idx = ctx.sample_indices(len(cases), 5)
    cov = {
        "evaluations": tot,
        "distinct_nontrivial": len({c for c in cases if c[2] > 0}),
        "rule": "(maximum length, command-set length via UID length, data-set length, in-memory|file-backed): every data-set length 0..3*(max-6)+1 for max in {7,8,9,10,13,16,64}; boundary lengths k*(max-6)+{-1,0,1,3,5,6,7}, k*max, k*max-1 for k=1..3 for max in {16382, 65542}; {0,1,2,1000} for max 0 and 2^32-1; each followed by every grouping (<=64, else 4 patterns) of the fragments into P-DATA primitives fed to decode_msg; non-trivial = non-empty data set",
        "maximum_lengths": [0] + SMALL + LARGE,
        "exhaustive": True,
        "samples": [{"max_length": cases[i][0], "uid_len": cases[i][1], "data_set_len": cases[i][2], "backing": cases[i][3]} for i in idx],
    }
    return core.Result("exploration", cov, viol, assumptions=["PDV item overhead = 4 (length) + 1 (context id) + 1 (control header) per PS3.8 Annex E / 9.3.5.1", "data content is a fixed non-periodic pattern; only lengths vary"])


def replay(ctx, data):
    tmp = tempfile.mkdtemp(prefix="vk-c15-")
    c = data["case"]
    for k, t in eval_case(c[0], c[1], c[2], c[3], tmp):
        print("VIOLATED:", k, t)
    return 0
