"""C11 - requestor and acceptor end up with the same view of the negotiated
contexts.

The C10 configuration space restricted to 1..2 (thorough 3) requested
contexts is pushed through the real wire path between two real AEs under the
simulator: AE.associate(ext_neg=roles) -> RQ bytes -> decode ->
negotiate_as_acceptor -> AC bytes -> decode -> negotiate_as_requestor.
"""
from __future__ import annotations

import itertools

from vk import core, negscen as N

ROLE_OPTS = [None, (True, True), (True, False), (False, True), (False, False)]
SUP_ROLES = [(None, None), (True, True), (True, False), (False, True), (False, False)]  # the API refuses a single None


def oracle(cfg, out):
    bad = []
    res, acc = out["res"], out["acc"]
    if out["exc"]:
        bad.append(("thread-exception", f"uncaught exception: {out['exc']}"))
    if out["why"] != "terminated":
        bad.append((f"not-terminated-{out['why']}", f"ended {out['why']}"))
    if "raised" in res:
        return bad  # the API refused the configuration up front
    req_ids = [c[0] for c in res.get("requested", [])]
    acc_ids = [c[0] for c in res.get("accepted", [])]
    rej_ids = [c[0] for c in res.get("rejected_cx", [])]
    if res.get("established") or res.get("aborted"):
        seen = sorted(acc_ids + rej_ids)
        if seen != sorted(req_ids):
            bad.append(("requestor-context-accounting", f"requestor proposed IDs {sorted(req_ids)} but holds accepted {acc_ids} + rejected {rej_ids}"))
    if res.get("established"):
        if acc is None:
            bad.append(("acceptor-not-established", "requestor established, acceptor never fired EVT_ESTABLISHED"))
            return bad
        ra = {c[0]: c for c in res["accepted"]}
        aa = {c[0]: c for c in acc["accepted"]}
        if set(ra) != set(aa):
            bad.append(("accepted-id-sets-differ", f"requestor accepted IDs {sorted(ra)}, acceptor accepted IDs {sorted(aa)}"))
        for cid in set(ra) & set(aa):
            r, a = ra[cid], aa[cid]
            if r[1] != a[1] or r[2] != a[2]:
                bad.append(("syntax-differs", f"context {cid}: requestor has ({r[1]}, {r[2]}), acceptor ({a[1]}, {a[2]})"))
            if r[3] != a[4] or r[4] != a[3]:
                role = cfg.get("roles", {}).get(r[1])
                sup = cfg["supported"].get(r[1])
                bad.append((f"roles-not-complementary-rq{_r(role)}-sup{_r(sup[1:] if sup else None)}", f"context {cid} ({r[1]}): requestor (as_scu, as_scp) = {(r[3], r[4])}, acceptor {(a[3], a[4])}; proposed {role}, supported roles {sup[1:] if sup else None}"))
    elif acc is not None and not res.get("aborted"):
        bad.append(("acceptor-established-alone", f"acceptor established but requestor reports {res}"))
    return bad


def _r(r):
    return "none" if r is None else "".join("T" if x else ("F" if x is False else "N") for x in r)


def gen(quick):
    abs_ = [N.A, N.B, N.Q, N.U]
    ts_opts = [(N.T1,), (N.T2, N.T1), (N.T3,)]
    # one context: full role product
    for ab in abs_:
        for tss in ts_opts:
            for rp in ROLE_OPTS:
                for sup_ts in ((N.T1,), (N.T1, N.T2)):
                    for sr in SUP_ROLES:
                        yield dict(requested=[(ab, tss)], roles={} if rp is None else {ab: rp}, supported={} if ab == N.U else {ab: (sup_ts, sr[0], sr[1])})
    # two contexts
    pairs = [(N.A, N.B), (N.B, N.B), (N.B, N.Q), (N.U, N.B)]
    for a1, a2 in pairs:
        distinct = sorted({a1, a2})
        for rps in itertools.product(ROLE_OPTS, repeat=len(distinct)):
            roles = {ab: rp for ab, rp in zip(distinct, rps) if rp is not None}
            for srs in itertools.product(SUP_ROLES[:5], repeat=len(distinct)):
                supported = {ab: ((N.T2, N.T1), sr[0], sr[1]) for ab, sr in zip(distinct, srs) if ab != N.U}
                yield dict(requested=[(a1, (N.T1, N.T2)), (a2, (N.T1,))], roles=roles, supported=supported)
    if not quick:
        for a1, a2, a3 in itertools.product([N.A, N.B, N.Q], repeat=3):
            distinct = sorted({a1, a2, a3})
            for rps in itertools.product(ROLE_OPTS, repeat=len(distinct)):
                roles = {ab: rp for ab, rp in zip(distinct, rps) if rp is not None}
                for sr in SUP_ROLES[:5]:
                    supported = {ab: ((N.T1,), sr[0], sr[1]) for ab in distinct}
                    yield dict(requested=[(a1, (N.T1,)), (a2, (N.T2, N.T1)), (a3, (N.T1,))], roles=roles, supported=supported)


def _chunk(cfgs):
    out = {}
    est = 0
    for cfg in cfgs:
        o = N.run_cfg(cfg)
        est += bool(o["res"].get("established"))
        for k, t in oracle(cfg, o):
            out.setdefault(k, (f"{_short(cfg)}: {t}", _js(cfg)))
    return len(cfgs), out, est


def _short(cfg):
    return {"requested": [(a[-6:], len(t)) for a, t in cfg["requested"]], "roles": {k[-6:]: v for k, v in cfg.get("roles", {}).items()}, "supported": {k[-6:]: v[1:] for k, v in cfg["supported"].items()}}


def _js(cfg):
    return {"requested": [[a, list(t)] for a, t in cfg["requested"]], "roles": {k: list(v) for k, v in cfg.get("roles", {}).items()}, "supported": {k: [list(v[0]), v[1], v[2]] for k, v in cfg["supported"].items()}}


def run(ctx: core.Ctx) -> core.Result:
    cfgs = list(gen(ctx.quick))
    n = core.NPROC * 4
    res = core.pmap(_chunk, [(cfgs[i::n],) for i in range(n) if cfgs[i::n]], seed=ctx.seed)
    viol, seen, tot, est = [], set(), 0, 0
    for cn, bad, e in res:
        tot += cn
        est += e
        for k, (t, rp) in bad.items():
            if k not in seen:
                seen.add(k)
                viol.append(core.Violation(k, t, rp))
    idx = ctx.sample_indices(len(cfgs), 4)
    cov = {
        "evaluations": tot,
        "distinct_nontrivial": est,
        "rule": "1 requested context: 4 abstract-syntax kinds x 3 transfer-syntax lists x 5 role proposals x 2 supported lists x 6 supported role settings; 2 contexts: 4 abstract-syntax pairs x role proposals^k x supported roles^k; thorough: 27 triples; each a full association between two real AEs under the simulator; non-trivial = the association was established",
        "exhaustive": True,
        "samples": [_js(cfgs[i]) for i in idx],
    }
    return core.Result("exploration", cov, viol, assumptions=["default schedule of the simulator (negotiation is sequential request/response)", "same simulator trusted base as C05/C06"])


def replay(ctx, data):
    cfg = dict(requested=[(a, tuple(t)) for a, t in data["requested"]], roles={k: tuple(v) for k, v in data["roles"].items()}, supported={k: (tuple(v[0]), v[1], v[2]) for k, v in data["supported"].items()})
    o = N.run_cfg(cfg)
    print(o["res"], o["acc"])
    print(oracle(cfg, o))
    return 0
