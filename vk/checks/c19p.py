"""C19, pipelined layer: a request on a non-accepted context that is already
queued while an earlier (valid) request is being served.

A byte-level raw peer proposes contexts 1 (Verification, accepted), 3 (an
abstract syntax the acceptor does not support, rejected) and 5 (CT storage,
accepted) to a real acceptor under the simulator and then sends, in a single
segment, a C-ECHO-RQ on context 1 followed by a second request of each type on
each context ID; the C-ECHO handler is held until the second message sits in
the DIMSE queue, so the association reactor meets it directly after serving
the first.  The second request may reach a handler (and be answered with a
success / pending / warning status) only on an accepted context.
"""
from __future__ import annotations

from vk import core, dimsepeer as dp, explore, scen, sim
from vk.explore import Scenario
from vk.ref import status as refstatus

IVRLE = scen.IVRLE
UNSUPPORTED = "1.2.840.10008.5.1.4.1.1.88.11"
ACCEPTED = {1, 5}
KINDS = ["c-echo", "c-store", "c-find", "c-get", "c-move", "n-create"]
DS = dp.elem(0x0008, 0x0018, dp.uid_bytes("1.2.3")) + dp.elem(0x0010, 0x0020, b"1 ")


def second_request(kind, cx, msg_id=2, data_cx=None):
    """data_cx: the context ID carried by the data-set fragments when a (misbehaving) peer does not
    keep the whole message on one context; the command set - what the request 'arrives on' - uses cx."""
    dcx = cx if data_cx is None else data_cx
    if kind == "c-echo":
        return dp.echo_rq(cx, msg_id)
    if kind == "c-store":
        return dp.pdata(cx, dp.cmd(dp.C_STORE_RQ, dp.CT, msg_id=msg_id, has_ds=True, priority=2, instance="1.2.3")) + dp.pdata(dcx, DS, command=False)
    if kind in ("c-find", "c-get", "c-move"):
        field, sop = {"c-find": (dp.C_FIND_RQ, dp.FIND), "c-get": (dp.C_GET_RQ, dp.GET), "c-move": (dp.C_MOVE_RQ, dp.MOVE)}[kind]
        extra = dp.elem(0, 0x600, b"DEST            ") if kind == "c-move" else b""
        return dp.pdata(cx, dp.cmd(field, sop, msg_id=msg_id, has_ds=True, priority=2, extra=extra)) + dp.pdata(dcx, dp.identifier(), command=False)
    if kind == "n-create":
        return dp.pdata(cx, dp.cmd(0x0140, "1.2.840.10008.5.1.1.1", msg_id=msg_id, has_ds=False, instance="1.2.3.4"))
    raise ValueError(kind)


class Pipelined(Scenario):
    max_steps = 60000
    max_time = 40.0

    def __init__(self, kind, cx, data_cx=None):
        self.kind, self.cx, self.data_cx = kind, cx, data_cx
        self.name = f"pipelined[{kind},cx={cx}{'' if data_cx is None else ',data-fragments-on-' + str(data_cx)}]"

    def build(self, s):
        from pynetdicom import evt

        ctx = {"calls": [], "peer": {"msgs": [], "abort": False, "eof": False}, "held": None}
        ae = scen.make_ae("ACC")
        ae.add_supported_context(dp.ECHO, [IVRLE])
        ae.add_supported_context(dp.CT, [IVRLE])
        for u in (dp.FIND, dp.GET, dp.MOVE, "1.2.840.10008.5.1.1.1"):
            ae.add_supported_context(u, [IVRLE])

        def rec(name, result):
            def h(event):
                mid = getattr(event.request, "MessageID", None)
                ctx["calls"].append((name, mid, event.context.context_id))
                if name == "c-echo" and mid == 1:
                    q = event.assoc.dimse.msg_queue
                    ok = s.block("handler.wait", "second-request", lambda: q.qsize() >= 1, 5.0)
                    ctx["held"] = bool(ok)
                return result() if callable(result) else result

            return h

        def gen_final():
            yield 0x0000, None

        def gen_get():
            yield 0
            yield 0x0000, None

        def gen_move():
            yield ("127.0.0.1", 11119)
            yield 0
            yield 0x0000, None

        handlers = [
            (evt.EVT_C_ECHO, rec("c-echo", 0x0000)),
            (evt.EVT_C_STORE, rec("c-store", 0x0000)),
            (evt.EVT_C_FIND, rec("c-find", gen_final)),
            (evt.EVT_C_GET, rec("c-get", gen_get)),
            (evt.EVT_C_MOVE, rec("c-move", gen_move)),
            (evt.EVT_N_CREATE, rec("n-create", lambda: (0x0000, None))),
        ]
        scen.start_server(s, ae, handlers, max_requests=1)
        PS = ctx["peer"]
        kind, cx, data_cx = self.kind, self.cx, self.data_cx

        def peer_main():
            so = sim.SimSocket()
            so.connect(("127.0.0.1", scen.PORT))
            so.send(dp.assoc_rq([(1, dp.ECHO, [IVRLE]), (3, UNSUPPORTED, [IVRLE]), (5, dp.CT, [IVRLE])]))
            rd = dp.MessageReader()
            sent = False
            t_end = s.now + 20.0
            seen_pdus = 0
            while s.now < t_end:
                if not so.readable():
                    ok = s.block("peer.wait", "peer", so.readable, 8.0)
                    if not ok:
                        break
                    continue
                try:
                    d = so.recv(65536)
                except OSError:
                    d = b""
                if not d:
                    PS["eof"] = True
                    break
                rd.feed(d)
                for t, body in rd.pdus[seen_pdus:]:
                    if t == 2 and not sent:
                        sent = True
                        so.send(dp.echo_rq(1, 1) + second_request(kind, cx, data_cx=data_cx))
                    elif t == 7:
                        PS["abort"] = True
                seen_pdus = len(rd.pdus)
                if PS["abort"]:
                    break
                if len([m for m in rd.msgs if m.get("rsp_to") == 2 and m["status"] not in (0xFF00, 0xFF01)]) >= 1:
                    so.send(dp.P.RELEASE_RQ)
                    t_end = min(t_end, s.now + 3.0)
            PS["msgs"] = [(m["field"], m.get("rsp_to"), m["status"], m["cx"]) for m in rd.msgs]
            so.close()

        s.spawn(peer_main, "peer")
        return ctx

    def check(self, s, ctx, why):
        v = []
        tag = f"pipelined:{self.kind}"
        ok_cx = self.cx in ACCEPTED and {"c-echo": 1, "c-store": 5}.get(self.kind) == self.cx
        second_calls = [c for c in ctx["calls"] if c[1] == 2]
        if ctx["held"] is not True:
            v.append((f"{tag}:vacuous", f"{self.name}: the second request was not queued while the first was being served (held={ctx['held']}, calls={ctx['calls']})"))
        if self.cx not in ACCEPTED:
            if second_calls:
                v.append((f"{tag}:handler-invoked", f"{self.name}: the request on context {self.cx} (not accepted) reached handler(s) {second_calls}"))
            good = [m for m in ctx["peer"]["msgs"] if m[1] == 2 and m[2] is not None and refstatus.category(m[2]) in (refstatus.SUCCESS, refstatus.PENDING, refstatus.WARNING)]
            if good:
                v.append((f"{tag}:answered-as-valid", f"{self.name}: the request on context {self.cx} (not accepted) was answered {[(hex(m[0]), hex(m[2]), m[3]) for m in good]}"))
        elif ok_cx and not second_calls:
            v.append((f"{tag}:valid-not-served", f"{self.name}: a valid pipelined request on accepted context {self.cx} never reached its handler (calls {ctx['calls']}, peer saw {ctx['peer']['msgs']})"))
        if why != "terminated":
            v.append((f"{tag}:not-terminated-{why}", f"{self.name}: ended {why}"))
        return v

    def summary(self, s, ctx, why):
        return (why, tuple(ctx["calls"]), ctx["peer"]["abort"], tuple(ctx["peer"]["msgs"]))


def scenarios(quick):
    out = []
    for kind in KINDS:
        ids = range(256) if (not quick or kind in ("c-echo", "c-store")) else (0, 1, 2, 3, 5, 7, 254, 255)
        for cx in ids:
            out.append(Pipelined(kind, cx))
    # a peer that does not keep a message on one context: command set on a non-accepted ID, data-set
    # fragments on an accepted one
    for kind in ("c-store", "c-find", "c-get", "c-move"):
        for cx in ((0, 2, 3, 7, 255) if quick else [i for i in range(256) if i not in ACCEPTED]):
            for dcx in sorted(ACCEPTED):
                out.append(Pipelined(kind, cx, data_cx=dcx))
    return out


def run_layer(ctx: core.Ctx):
    scns = scenarios(ctx.quick)
    res = explore.explore_family(scns, D=0, seed=ctx.seed)
    viol, seen = [], set()
    outcomes = set()
    execs = 0
    for scn, r in zip(scns, res):
        execs += r["stats"]["executions"]
        outcomes |= {(scn.kind, k[0], len(k[1]), k[2]) for k in r["summaries"]}
        for k, (what, pfx) in r["viols"].items():
            if k not in seen:
                seen.add(k)
                viol.append(core.Violation(k, what, {"item": ["pipelined", scn.kind, scn.cx, scn.data_cx]}))
    return viol, {"pipelined_scenarios": len(scns), "pipelined_executions": execs, "pipelined_distinct_outcomes": len(outcomes)}


def replay_item(kind, cx, data_cx=None):
    r = explore.execute(Pipelined(kind, cx, data_cx), (), want_obs=False)
    print(r["why"], r["summary"], r["viol"])
    return 1 if r["viol"] else 0
