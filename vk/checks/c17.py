"""C17 - DIMSE primitives survive conversion to command sets and back.

For each of the 23 message types: every subset of its PS3.7 parameters (first
value of each), then every alternative value one at a time, every message ID
and data set absent/present: primitive -> DIMSEMessage -> encode_msg ->
decode_msg -> message_to_primitive must give the same type, direction and
parameter values; the command field must be the PS3.7 value and
CommandGroupLength the length of the rest of the command set.
"""
from __future__ import annotations

import itertools
import struct
from io import BytesIO

from vk import core
from vk.ref import cmd as ref


def _norm(v):
    from pydicom.tag import BaseTag
    from pydicom.multival import MultiValue

    if isinstance(v, BytesIO):
        return ("bytes", v.getvalue())
    if isinstance(v, (list, tuple, MultiValue)):
        out = []
        for x in v:
            if isinstance(x, tuple):
                out.append((x[0] << 16) | x[1])
            else:
                out.append(int(x))
        return out
    if isinstance(v, BaseTag):
        return [int(v)]
    if isinstance(v, str):
        return v.strip()
    if isinstance(v, bytes):
        return v
    return v


def eval_case(name, params, msg_id, ds):
    """params: {keyword: value}"""
    from pynetdicom import dimse_primitives as dp
    from pynetdicom.dimse import _RQ_TO_MESSAGE, _RSP_TO_MESSAGE
    from pynetdicom.dimse_messages import DIMSEMessage

    cls_name, is_rsp, field, plist, ds_kw = ref.MESSAGES[name]
    cls = getattr(dp, cls_name)
    prim = cls()
    bad = []
    try:
        if is_rsp:
            prim.MessageIDBeingRespondedTo = msg_id
        else:
            prim.MessageID = msg_id
        for k, v in params.items():
            setattr(prim, k, v)
        if ds_kw and ds is not None:
            setattr(prim, ds_kw, BytesIO(ds))
    except Exception as exc:
        return [("setter-rejects", f"{name}: setting {params} raised {type(exc).__name__}: {exc}")]
    try:
        mcls = (_RSP_TO_MESSAGE if prim.MessageIDBeingRespondedTo is not None else _RQ_TO_MESSAGE)[cls]
        msg = mcls()
        msg.primitive_to_message(prim)
        pdatas = list(msg.encode_msg(1, 16382))
        rx = DIMSEMessage()
        done = False
        raw_cmd = b""
        for p in pdatas:
            for _, b in p.presentation_data_value_list:
                if b[0] & 1:
                    raw_cmd += b[1:]
            done = rx.decode_msg(p)
        if not done:
            return [("incomplete", f"{name}: receiver did not complete the message")]
        back = rx.message_to_primitive()
    except Exception as exc:
        return [(f"raised-{type(exc).__name__}", f"{name} {params}: round trip raised {type(exc).__name__}: {exc}")]
    if type(back) is not cls:
        bad.append(("type", f"{name}: came back as {type(back).__name__}"))
        return bad
    if type(rx).__name__.replace("_", "-") != name:
        bad.append(("message-class", f"{name}: decoded as {type(rx).__name__}"))
    # command field and group length from the raw bytes
    els = {}
    i = 0
    while i + 8 <= len(raw_cmd):
        g, e, ln = struct.unpack("<HHL", raw_cmd[i : i + 8])
        els[(g, e)] = raw_cmd[i + 8 : i + 8 + ln]
        if (g, e) == (0, 0):
            gl_at = i + 8 + ln
        i += 8 + ln
    cf = struct.unpack("<H", els[(0, 0x100)])[0] if (0, 0x100) in els else None
    if cf != field:
        bad.append(("command-field", f"{name}: CommandField 0x{cf:04X}, PS3.7 says 0x{field:04X}"))
    gl = struct.unpack("<L", els[(0, 0)])[0] if (0, 0) in els else None
    if gl != len(raw_cmd) - gl_at:
        bad.append(("group-length", f"{name}: CommandGroupLength {gl}, rest of the command set is {len(raw_cmd) - gl_at} bytes"))
    # direction
    if is_rsp:
        if back.MessageIDBeingRespondedTo != msg_id or getattr(back, "MessageID", None) not in (None,):
            if back.MessageIDBeingRespondedTo != msg_id:
                bad.append(("message-id", f"{name}: MessageIDBeingRespondedTo {back.MessageIDBeingRespondedTo}, sent {msg_id}"))
    else:
        if back.MessageID != msg_id:
            bad.append(("message-id", f"{name}: MessageID {back.MessageID}, sent {msg_id}"))
        if back.MessageIDBeingRespondedTo is not None:
            bad.append(("direction", f"{name}: request came back with MessageIDBeingRespondedTo set"))
    for k in plist:
        sent = params[k] if k in params else getattr(cls(), k, None)  # unset -> the primitive's default
        got = getattr(back, k, None)
        if _norm(sent) != _norm(got):
            bad.append((f"param-{k}", f"{name}: {k} sent {sent!r}, came back {got!r}"))
    if ds_kw:
        got = getattr(back, ds_kw)
        gb = got.getvalue() if isinstance(got, BytesIO) else got
        if (ds or b"") != (gb or b""):
            bad.append((f"dataset-{ds_kw}", f"{name}: {ds_kw} sent {ds!r}, came back {gb!r}"))
    return bad


def gen_cases(quick):
    for name, (cls_name, is_rsp, field, plist, ds_kw) in ref.MESSAGES.items():
        first = {k: ref.VALUES[k][0] for k in plist}
        # every subset with the first value
        for r in range(len(plist) + 1):
            for sub in itertools.combinations(plist, r):
                for ds in ref.DATASETS if ds_kw else [None]:
                    yield name, {k: first[k] for k in sub}, 1, ds
        # every alternative value, one at a time, on top of the full set
        for k in plist:
            for v in ref.VALUES[k][1:]:
                p = dict(first)
                p[k] = v
                yield name, p, 1, (ref.DATASETS[1] if ds_kw else None)
        for mid in ref.MESSAGE_IDS[1:]:
            yield name, dict(first), mid, None
        if not quick:
            # pairs of alternative values
            for k1, k2 in itertools.combinations(plist, 2):
                for v1 in ref.VALUES[k1][1:]:
                    for v2 in ref.VALUES[k2][1:]:
                        p = dict(first)
                        p[k1], p[k2] = v1, v2
                        yield name, p, 65535, (ref.DATASETS[1] if ds_kw else None)


def _chunk(cases):
    out = {}
    for name, params, mid, ds in cases:
        for k, t in eval_case(name, params, mid, ds):
            out.setdefault(f"{name}:{k}", (t, {"name": name, "params": {a: (list(map(list, b)) if isinstance(b, list) else b) for a, b in params.items()}, "msg_id": mid, "ds": None if ds is None else ds.hex()}))
    return len(cases), out


def run(ctx: core.Ctx) -> core.Result:
    cases = list(gen_cases(ctx.quick))
    n = core.NPROC * 2
    res = core.pmap(_chunk, [(cases[i::n],) for i in range(n) if cases[i::n]], seed=ctx.seed)
    viol, seen, tot = [], set(), 0
    for cn, bad in res:
        tot += cn
        for k, (t, rp) in bad.items():
            if k not in seen:
                seen.add(k)
                viol.append(core.Violation(k, t, rp))
    idx = ctx.sample_indices(len(cases), 5)
    cov = {
        "evaluations": tot,
        "distinct_nontrivial": len({(c[0], tuple(sorted(c[1])), c[2], c[3]) for c in cases if c[1]}),
        "rule": "23 message types x every subset of their PS3.7 parameters x data set absent/present, plus every alternative boundary value one at a time (pairs in the thorough tier) and message IDs {0,1,65535}; non-trivial = at least one optional parameter set",
        "message_types": len(ref.MESSAGES),
        "exhaustive": True,
        "samples": [{"message": cases[i][0], "parameters": sorted(cases[i][1]), "message_id": cases[i][2], "data_set": cases[i][3] is not None} for i in idx],
    }
    return core.Result("exploration", cov, viol, assumptions=["message/parameter table transcribed from PS3.7 9.3, 10.3, E.1 (vk/ref/cmd.py)", "string parameters compare modulo trailing padding"])


def replay(ctx, data):
    params = {k: ([tuple(x) for x in v] if isinstance(v, list) else v) for k, v in data["params"].items()}
    for k, t in eval_case(data["name"], params, data["msg_id"], bytes.fromhex(data["ds"]) if data["ds"] else None):
        print("VIOLATED:", k, t)
    return 0
