"""C27 - event notifications form a well-formed history.

The history monitor (FSM transitions chain; CONN_OPEN first, CONN_CLOSE once
and last among connection events; ESTABLISHED at most once and before
RELEASED/ABORTED; PDU/DATA notifications equal the bytes on the wire tap) is
evaluated on every execution of the two-AE life-cycle scenarios under every
schedule with at most D deviations.
"""
from __future__ import annotations

from vk import core, lifecycle, monitors as M

MONS = [M.mon_history]


def run(ctx: core.Ctx) -> core.Result:
    scns = [lifecycle.Lifecycle(rq, ac, monitors=MONS) for rq in lifecycle.REQ_SCRIPTS for ac in lifecycle.ACC_SCRIPTS]
    return lifecycle.run_family(ctx, scns, D=ctx.pick(1, 2))


def replay(ctx, data):
    return lifecycle.replay(ctx, data, MONS)
