"""C27 - event notifications form a well-formed history.

The history monitor (FSM transitions chain; CONN_OPEN first, CONN_CLOSE once
and last among connection events; ESTABLISHED at most once and before
RELEASED/ABORTED; PDU/DATA notifications equal the bytes on the wire tap) is
evaluated

(1) on every execution of the two-AE life-cycle scenarios under every
    schedule with at most D deviations, and
(2) on the real local side against a scripted raw peer that ends every
    exchange by staying silent with the connection open (release, abort,
    rejection, protocol error, unanswered request), with a *slow* notification
    handler: for every notification event and each of its first 8 (thorough:
    12) invocations the handler takes longer than the ACSE / ARTIM time-out at
    exactly that invocation, so that timer
    expiries coincide with the reactor's own housekeeping.
"""
from __future__ import annotations

from vk import core, explore, lifecycle, monitors as M, peer as P, rawpeer, scen

MONS = [M.mon_history]
SLOW = 2.5  # seconds of virtual time spent inside the slow handler (ACSE / ARTIM time-out: 2 s)
ECHO_RQ = P.pdata(1, P.command_set(0x0030, msg_id=7))
ECHO_RSP = P.pdata(1, P.command_set(0x8030, rsp_to=1, status=0))

SCRIPTS = {
    # local side is the acceptor
    "acc-release": ("acceptor", [("send", P.assoc_rq()), ("expect", 1), ("send", P.RELEASE_RQ), ("expect", 2), ("silent",)]),
    "acc-echo-release": ("acceptor", [("send", P.assoc_rq()), ("expect", 1), ("send", ECHO_RQ), ("expect", 2), ("send", P.RELEASE_RQ), ("expect", 3), ("silent",)]),
    "acc-peer-abort": ("acceptor", [("send", P.assoc_rq()), ("expect", 1), ("send", P.abort()), ("silent",)]),
    "acc-bad-version": ("acceptor", [("send", P.assoc_rq(pv=2)), ("expect", 1), ("silent",)]),
    "acc-second-rq": ("acceptor", [("send", P.assoc_rq()), ("expect", 1), ("send", P.assoc_rq()), ("expect", 2), ("silent",)]),
    "acc-peer-close": ("acceptor", [("send", P.assoc_rq()), ("expect", 1), ("close",)]),
    # local side is the requestor (user: associate, echo, release)
    "req-normal": ("requestor", [("expect", 1), ("send", P.assoc_ac()), ("expect", 2), ("send", ECHO_RSP), ("expect", 3), ("send", P.RELEASE_RP), ("silent",)]),
    "req-rejected": ("requestor", [("expect", 1), ("send", P.assoc_rj()), ("silent",)]),
    "req-peer-abort": ("requestor", [("expect", 1), ("send", P.assoc_ac()), ("expect", 2), ("send", P.abort()), ("silent",)]),
    "req-echo-unanswered": ("requestor", [("expect", 1), ("send", P.assoc_ac()), ("expect", 2), ("silent",)]),
    "req-release-unanswered": ("requestor", [("expect", 1), ("send", P.assoc_ac()), ("expect", 2), ("send", ECHO_RSP), ("expect", 3), ("silent",)]),
}


def start_race_kinds(info, alt):
    """Deviations of the start-race family: at the point right after a Thread.start() (any other
    thread may run first) and early wake-ups of sleeping pollers (the runnable thread is descheduled)."""
    return info[0][2] == "thread.started" or info[alt][1] == "early"


def start_race_kinds_quick(info, alt):
    """Quick tier: the early wake-ups are restricted to the provider (DUL) threads."""
    return info[0][2] == "thread.started" or (info[alt][1] == "early" and "dul" in info[alt][0])


def mon_history_local(scn, s, ctx, why):
    """mon_history for the one real side of a raw-peer scenario."""
    a = ctx["res"].get("assoc")
    if scn.role == "acceptor":
        view = {"res": {}, "acc_assocs": [a] if a is not None else [], "ra": ctx["rec"], "rr": ctx["rec"]}
    else:
        view = {"res": {"assoc": a}, "acc_assocs": [], "ra": ctx["rec"], "rr": ctx["rec"]}
    v = list(M.mon_history(scn, s, view, why))
    for th, kind, msg in M.thread_exceptions(s):
        v.append((f"uncaught-{kind}-in-{th}", f"{scn.name}: uncaught exception in {th}: {msg}"))
    if why != "terminated":
        v.append((f"not-terminated-{why}", f"{scn.name}: ended {why}"))
    return v


class SlowHandler(rawpeer.RawPeerScenario):
    def __init__(self, script_name, slow_event, nth):
        role, script = SCRIPTS[script_name]
        super().__init__(role, script, name=f"slow[{script_name},{slow_event or 'none'}@{nth}]", patience=30.0)
        self.script_name, self.slow_event, self.nth = script_name, slow_event, nth
        self.max_time = 90.0

        def extra(ctx, sched):
            if not slow_event:
                return []
            from pynetdicom import evt

            count = {"n": 0}

            def slow(event):
                count["n"] += 1
                if count["n"] == nth:
                    sched.sleep(SLOW)

            return [(getattr(evt, slow_event), slow)]

        self.extra_handlers = extra

    def check(self, s, ctx, why):
        out = []
        for k, what in mon_history_local(self, s, ctx, why):
            out.append((f"slow[{self.script_name}]:{self.slow_event or 'none'}:{k}", what))
        return out


def slow_scenarios(quick):
    out = []
    for name in SCRIPTS:
        out.append(SlowHandler(name, None, 1))
        for ev in scen.Recorder.NOTIF:
            for nth in range(1, 9 if quick else 13):
                out.append(SlowHandler(name, ev, nth))
    return out


def run(ctx: core.Ctx) -> core.Result:
    scns = [lifecycle.Lifecycle(rq, ac, monitors=MONS) for rq in lifecycle.REQ_SCRIPTS for ac in lifecycle.ACC_SCRIPTS]
    res = lifecycle.run_family(ctx, scns, D=ctx.pick(1, 2))
    # (3) start races: the same monitor on five life cycles with one more scheduling point - directly
    #     after every Thread.start(), so that a freshly started thread can run before its starter's next
    #     statement - under every schedule with <= 1 deviation
    racers = []
    for rq, ac in (("release", "none"), ("abort", "none")):
        # adversarial time: a thread that sleeps in its polling loop may be run early (time passes)
        # although another thread is runnable, i.e. the runnable one is descheduled for that long
        r_ = lifecycle.Lifecycle(rq, ac, adversarial=True, monitors=MONS)
        r_.point_after_spawn = True
        r_.name = r_.name + "+start-race"
        racers.append(r_)
    rres = lifecycle.run_family(ctx, racers if not ctx.quick else racers[:1], D=2, kinds=start_race_kinds if not ctx.quick else start_race_kinds_quick)
    seen0 = {v.key for v in res.violations}
    for v in rres.violations:
        if v.key not in seen0:
            res.violations.append(v)
    res.coverage["start_race_scenarios"] = len(racers)
    res.coverage["start_race_executions"] = rres.coverage["executions"]
    res.coverage["traces_validated_against_impl"] += rres.coverage["executions"]
    slow = slow_scenarios(ctx.quick)
    sres = explore.explore_family(slow, D=0, seed=ctx.seed)
    seen = {v.key for v in res.violations}
    n_exec = 0
    outcomes = set()
    for scn, r in zip(slow, sres):
        n_exec += r["stats"]["executions"]
        outcomes |= {(scn.script_name, k) for k in r["summaries"]}
        for k, (what, pfx) in r["viols"].items():
            if k not in seen:
                seen.add(k)
                res.violations.append(core.Violation(k, what, {"kind": "slow", "script": scn.script_name, "event": scn.slow_event, "nth": scn.nth}))
    res.coverage["slow_handler_scenarios"] = len(slow)
    res.coverage["slow_handler_executions"] = n_exec
    res.coverage["slow_handler_distinct_outcomes"] = len(outcomes)
    res.coverage["traces_validated_against_impl"] += n_exec
    res.assumptions.append(f"slow-handler layer: {len(SCRIPTS)} raw-peer scripts x (no slow handler + 17 notification events x the 1st .. 8th (thorough: 12th) invocation of the handler being the slow one), handler duration {SLOW}s of virtual time, default schedule")
    return res


def replay(ctx, data):
    if data.get("kind") == "slow":
        r = explore.execute(SlowHandler(data["script"], data["event"], data["nth"]), (), want_obs=True)
        for o in r["obs"]:
            if o[0] == "evt" and o[3] in ("EVT_DATA_SENT", "EVT_DATA_RECV"):
                continue
            print(o)
        print(r["why"], r["summary"])
        for k, w in r["viol"]:
            print("VIOLATED:", k, w)
        return 1 if r["viol"] else 0
    return lifecycle.replay(ctx, data, MONS)
