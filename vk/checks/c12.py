"""C12 - association requests and responses pynetdicom sends are structurally
conformant.

Real associations between two real AEs under the simulator for configurations
the API accepts: 1, 2, 127, 128 requested contexts with repeated abstract
syntaxes, AE titles (1 / 16 characters, inner spaces), maximum PDU sizes,
implementation class UID lengths and version names, every subset of the
extended-negotiation items (role, async, SOP-extended, common-extended, user
identity types 1..5).  The A-ASSOCIATE-RQ and -AC/-RJ bytes taken from the wire
tap are decoded by the strict reference decoder and checked against the
structural rules of PS3.8 9.3.2/9.3.3.
"""
from __future__ import annotations

import itertools
import re

from vk import core, negscen as N
from vk.ref import codec as ref

UID_RE = re.compile(r"^(0|[1-9][0-9]*)(\.(0|[1-9][0-9]*))*$")


def legal_uid(u):
    return 1 <= len(u) <= 64 and bool(UID_RE.match(u))


def legal_title(raw16):
    """raw16: the 16-byte field as text"""
    t = raw16.strip(" ")
    return len(raw16) == 16 and len(t) >= 1 and all(0x20 <= ord(ch) <= 0x7E and ch != "\\" for ch in raw16)


def check_rq(b, n_requested):
    bad = []
    try:
        v = ref.decode(b)
    except ref.Malformed as exc:
        return [("rq-malformed", f"A-ASSOCIATE-RQ rejected by the strict reference decoder: {exc}")]
    ids = [pc["id"] for pc in v["pcs"]]
    if not (1 <= len(v["pcs"]) <= 128):
        bad.append(("rq-context-count", f"{len(v['pcs'])} presentation contexts"))
    if len(v["pcs"]) != n_requested:
        bad.append(("rq-context-count-differs", f"{len(v['pcs'])} contexts on the wire, {n_requested} requested"))
    if len(set(ids)) != len(ids) or any(i % 2 == 0 or not 1 <= i <= 255 for i in ids):
        bad.append(("rq-context-ids", f"context IDs not distinct odd 1..255: {ids[:10]}..."))
    for pc in v["pcs"]:
        if pc["abstract"] is None or not pc["ts"]:
            bad.append(("rq-context-shape", f"context {pc['id']} lacks an abstract syntax or a transfer syntax"))
        for u in [pc["abstract"]] + pc["ts"]:
            if u is not None and not legal_uid(u):
                bad.append(("rq-uid", f"illegal UID {u!r}"))
    bad += _common(b, v, "rq")
    return bad


def _common(b, v, tag):
    bad = []
    if v["app"] is None or not legal_uid(v["app"]):
        bad.append((f"{tag}-app-context", f"application context {v['app']!r}"))
    # exactly one application context item and one user information item
    n10 = n50 = 0
    i = 74
    import struct

    while i + 4 <= len(b):
        t, _, ln = struct.unpack(">BBH", b[i : i + 4])
        n10 += t == 0x10
        n50 += t == 0x50
        i += 4 + ln
    if n10 != 1 or n50 != 1:
        bad.append((f"{tag}-item-multiplicity", f"{n10} application context items, {n50} user information items"))
    kinds = [s[0] for s in (v["user"] or [])]
    if kinds.count("maxlen") != 1 or kinds.count("implclass") != 1:
        bad.append((f"{tag}-user-info", f"user information holds {kinds.count('maxlen')} maximum-length and {kinds.count('implclass')} implementation-class items"))
    for s in v["user"] or []:
        if s[0] == "implclass" and not legal_uid(s[1]):
            bad.append((f"{tag}-impl-uid", f"implementation class UID {s[1]!r}"))
        if s[0] == "implver" and not (1 <= len(s[1]) <= 16):
            bad.append((f"{tag}-impl-version", f"implementation version name {s[1]!r}"))
        if s[0] in ("role", "sopext", "common") and not legal_uid(s[1]):
            bad.append((f"{tag}-subitem-uid", f"{s[0]} UID {s[1]!r}"))
    for name, raw in (("called", b[10:26]), ("calling", b[26:42])):
        if tag == "rq" and not legal_title(raw.decode("latin-1")):
            bad.append((f"{tag}-ae-title", f"{name} AE title field {raw!r}"))
    if any(b[42:74]):
        bad.append((f"{tag}-reserved", "reserved bytes 43-74 not zero"))
    if v["pv"] & 1 != 1:
        bad.append((f"{tag}-protocol-version", f"protocol version 0x{v['pv']:04X}"))
    return bad


def check_ac(b, rq_b):
    bad = []
    try:
        v = ref.decode(b)
        rqv = ref.decode(rq_b)
    except ref.Malformed as exc:
        return [("ac-malformed", f"A-ASSOCIATE-AC rejected by the strict reference decoder: {exc}")]
    if v["type"] == "RJ":
        return bad
    ids = sorted(pc["id"] for pc in v["pcs"])
    if ids != sorted(pc["id"] for pc in rqv["pcs"]):
        bad.append(("ac-result-ids", f"result items for IDs {ids[:8]}, proposed {sorted(pc['id'] for pc in rqv['pcs'])[:8]}"))
    for pc in v["pcs"]:
        if pc["result"] == 0 and (not pc["ts"] or not legal_uid(pc["ts"])):
            bad.append(("ac-accepted-without-ts", f"accepted context {pc['id']} carries transfer syntax {pc['ts']!r}"))
        if pc["result"] not in (0, 1, 2, 3, 4):
            bad.append(("ac-result-value", f"context {pc['id']} result {pc['result']}"))
    bad += _common(b, v, "ac")
    return bad


def gen(quick):
    base_sup = {N.A: ((N.T1,), None, None), N.B: ((N.T2, N.T1), True, True), N.Q: ((N.T1,), None, None)}
    # (incl. fixed-width values from configuration files: padded beyond 16 characters - whatever the API
    # accepts must still come out as a legal 16-byte field)
    titles = ["A", "ABCDEFGHIJKLMNOP", "A B C", "x", " A", "A ", "STORESCP            ", "  ABCDEFGHIJKLMNOP", "ABCDEFGHIJKLMNOP ", "A" + " " * 16]
    for n in (1, 2, 3, 127, 128):
        req = [((N.A, N.B, N.Q, N.U)[i % 4], (N.T1, N.T2) if i % 3 else (N.T1,)) for i in range(n)]
        yield dict(requested=req, supported=base_sup)
    for rt, at in itertools.product(titles, repeat=2):
        yield dict(requested=[(N.A, (N.T1,))], supported=base_sup, rq_title=rt, acc_title=at)
    for mp in (0, 1, 16382, 2**32 - 1):
        yield dict(requested=[(N.A, (N.T1,))], supported=base_sup, max_pdu=mp)
    for iu in ("1", "1.2.3", "1.2." + "3" * 59, "1.2." + "3" * 60):
        for iv in (None, "V", "VERSION_NAME_16C"):
            yield dict(requested=[(N.B, (N.T1,))], supported=base_sup, impl_uid=iu, impl_version=iv)
    exts = ["async", "sopext", "common", "userid"]
    for r in range(len(exts) + 1):
        for sub in itertools.combinations(exts, r):
            for roles in ({}, {N.B: (True, True)}):
                if "userid" in sub:
                    for ut in (1, 2, 3, 4, 5):
                        for rr in (False, True):
                            yield dict(requested=[(N.B, (N.T1,)), (N.A, (N.T1,))], supported=base_sup, ext=sub, roles=roles, userid_type=ut, userid_response=rr)
                else:
                    yield dict(requested=[(N.B, (N.T1,)), (N.A, (N.T1,))], supported=base_sup, ext=sub, roles=roles)
    # context objects that already carry IDs when handed to associate() (reused from an earlier association)
    for n in (2, 3):
        req = [((N.A, N.B, N.Q)[i % 3], (N.T1,)) for i in range(n)]
        for ids in itertools.product((None, 1, 3, 5, 255), repeat=n):
            if any(i is not None for i in ids):
                yield dict(requested=req, supported=base_sup, preset_ids=list(ids))
    # nothing acceptable / everything rejected
    yield dict(requested=[(N.U, (N.T1,))], supported=base_sup)
    yield dict(requested=[(N.B, (N.T3,))], supported=base_sup)


def eval_cfg(cfg):
    try:
        o = N.run_cfg(cfg)
    except (ValueError, TypeError):
        return [], False  # the API refuses this configuration up front (e.g. an AE title that is too long)
    bad = []
    if "raised" in o["res"]:
        return bad, False
    if o["exc"]:
        bad.append(("thread-exception", f"{o['exc']}"))
    if o["rq"] is None:
        bad.append(("no-rq-on-wire", f"no A-ASSOCIATE-RQ on the wire ({o['res']})"))
        return bad, False
    bad += check_rq(o["rq"], len(cfg["requested"]))
    if o["ac"] is not None:
        bad += check_ac(o["ac"], o["rq"])
    return bad, o["ac"] is not None


def _chunk(cfgs):
    out = {}
    nac = 0
    for cfg in cfgs:
        bad, has_ac = eval_cfg(cfg)
        nac += has_ac
        for k, t in bad:
            out.setdefault(k, (f"{_short(cfg)}: {t}", _short(cfg)))
    return len(cfgs), out, nac


def _short(cfg):
    d = {k: v for k, v in cfg.items() if k not in ("requested", "supported")}
    d["n_requested"] = len(cfg["requested"])
    d = {k: (list(v) if isinstance(v, tuple) else ({a: list(b) for a, b in v.items()} if isinstance(v, dict) else v)) for k, v in d.items()}
    return d


def run(ctx: core.Ctx) -> core.Result:
    cfgs = list(gen(ctx.quick))
    n = core.NPROC * 2
    res = core.pmap(_chunk, [(cfgs[i::n],) for i in range(n) if cfgs[i::n]], seed=ctx.seed)
    viol, seen, tot, nac = [], set(), 0, 0
    for cn, bad, a in res:
        tot += cn
        nac += a
        for k, (t, rp) in bad.items():
            if k not in seen:
                seen.add(k)
                viol.append(core.Violation(k, t, rp))
    idx = ctx.sample_indices(len(cfgs), 4)
    cov = {
        "evaluations": tot,
        "distinct_nontrivial": nac,
        "rule": "requested context counts {1,2,3,127,128}, 16 AE title pairs, 4 maximum PDU sizes, 4 implementation UIDs x 3 version names, every subset of {async, sop-extended, common-extended, user identity types 1..5 x response requested} x role proposal; each a real association under the simulator whose RQ and AC/RJ bytes are taken from the wire tap; non-trivial = a response PDU was captured",
        "exhaustive": True,
        "samples": [_short(cfgs[i]) for i in idx],
    }
    return core.Result("exploration", cov, viol, assumptions=["structural rules from PS3.8 9.3.2 / 9.3.3 and PS3.5 (UI, AE value representations)", "strict reference decoder vk/ref/codec.py verifies every length field"])


def replay(ctx, data):
    print("configuration:", data)
    return 0
