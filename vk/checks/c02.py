"""C02 - arbitrary received bytes never crash the provider or yield unstable
PDUs.

Bounded-exhaustive mutation enumeration fed to the real
DULServiceProvider._read_pdu_data (real AssociationSocket over an in-memory
byte source): all 256 type bytes x boundary lengths x body shapes; for ~25
valid seed PDUs (one per PDU type and item kind, built by the reference
codec) every prefix, every single-byte substitution at every offset by a set
of values, every length field set to boundary values, every item-type byte
replaced by all 256 values, trailing extensions, duplicated and reordered
items; and a list of PDUs that conform to PS3.8 although the implementation's
own encoder never emits them.
"""
from __future__ import annotations

import queue as _q
import signal
import struct

from vk import core, stubs
from vk.ref import codec as ref

APP = "1.2.840.10008.3.1.1.1"
VER = "1.2.840.10008.1.1"
CT = "1.2.840.10008.5.1.4.1.1.2"
T1, T2 = "1.2.840.10008.1.2", "1.2.840.10008.1.2.1"
EVENT_OF = {1: "Evt6", 2: "Evt3", 3: "Evt4", 4: "Evt10", 5: "Evt12", 6: "Evt13", 7: "Evt16"}


class ByteSource:
    def __init__(self, data):
        self.data = bytes(data)
        self.pos = 0

    def recv(self, n):
        out = self.data[self.pos : self.pos + n]
        self.pos += len(out)
        return out

    def send(self, b):
        return len(b)

    def settimeout(self, t):
        pass

    def shutdown(self, how):
        pass

    def close(self):
        pass

    def fileno(self):
        return 5


class Hang(Exception):
    pass


def _alarm(signum, frame):
    raise Hang()


_ASSOC = None


def feed(data):
    """-> dict(raised, events, pdu (or None), stable)"""
    global _ASSOC
    from pynetdicom.association import Association
    from pynetdicom.transport import AssociationSocket

    if _ASSOC is None:
        from pynetdicom.transport import AddressInformation

        _ASSOC = Association(stubs.make_ae(), "acceptor")
        _ASSOC.requestor.address_info = AddressInformation("127.0.0.1", 40000)
        _ASSOC.acceptor.address_info = AddressInformation("127.0.0.1", 11112)
    assoc = _ASSOC
    dul = assoc.dul
    for qq in (dul.event_queue, dul._recv_pdu):
        while True:
            try:
                qq.get(False)
            except _q.Empty:
                break
    src = ByteSource(data)
    sock = AssociationSocket.__new__(AssociationSocket)
    sock._assoc = assoc
    sock.socket = src
    sock._is_connected = True
    sock._tls_args = None
    sock.select_timeout = 0.5
    dul.socket = sock
    out = {"raised": None, "events": [], "pdu": None, "unstable": None}
    signal.signal(signal.SIGALRM, _alarm)
    signal.setitimer(signal.ITIMER_REAL, 5.0)
    try:
        dul._read_pdu_data()
    except Hang:
        out["raised"] = "HANG (> 5 s)"
    except BaseException as exc:  # noqa
        out["raised"] = f"{type(exc).__name__}: {exc}"
    finally:
        signal.setitimer(signal.ITIMER_REAL, 0)
    while True:
        try:
            out["events"].append(dul.event_queue.get(False))
        except _q.Empty:
            break
    try:
        p = dul._recv_pdu.get(False)
    except _q.Empty:
        p = None
    if p is not None:
        out["pdu"] = type(p).__name__
        try:
            b1 = p.encode()
            p2 = type(p)()
            p2.decode(b1)
            b2 = p2.encode()
            if p2 != p:
                out["unstable"] = "decode(encode(p)) != p"
            elif b1 != b2:
                out["unstable"] = "encode not idempotent"
            else:
                p3 = type(p)()
                p3.decode(b2)
                if p3 != p2:
                    out["unstable"] = "second round differs"
        except Exception as exc:
            out["unstable"] = f"re-encode/decode raised {type(exc).__name__}: {exc}"
        # the provider's reaction: the real state machine processes the event in the state in which
        # this PDU is expected (conversion to a primitive, hand-over to ACSE / DIMSE, replies)
        if len(out["events"]) == 1 and out["events"][0] in NATURAL_STATE:
            ev = out["events"][0]
            dul._recv_pdu.put(p)
            assoc.dimse.message = None
            dul.state_machine.current_state = NATURAL_STATE[ev]
            signal.setitimer(signal.ITIMER_REAL, 5.0)
            try:
                dul.state_machine.do_action(ev)
            except Hang:
                out["react_raised"] = "HANG (> 5 s)"
            except BaseException as exc:  # noqa
                out["react_raised"] = f"{type(exc).__name__}: {exc}"
            finally:
                signal.setitimer(signal.ITIMER_REAL, 0)
            out["react_state"] = dul.state_machine.current_state
            for qq in (dul.event_queue, dul._recv_pdu, dul.to_user_queue, assoc.dimse.msg_queue):
                while True:
                    try:
                        qq.get(False)
                    except _q.Empty:
                        break
            dul._kill_thread = False
            dul.artim_timer.stop()
            dul.state_machine.current_state = "Sta1"
    return out


NATURAL_STATE = {"Evt6": "Sta2", "Evt3": "Sta5", "Evt4": "Sta5", "Evt10": "Sta6", "Evt12": "Sta6", "Evt13": "Sta7", "Evt16": "Sta6"}


def accept_in_sta2(data):
    """Feed the bytes, then let the real state machine process the event in Sta2."""
    from pynetdicom.pdu import A_ASSOCIATE_RQ

    r = feed(data)
    dul = _ASSOC.dul
    p = A_ASSOCIATE_RQ()
    p.decode(data)
    dul._recv_pdu.put(p)
    dul.state_machine.current_state = "Sta2"
    try:
        dul.state_machine.do_action("Evt6")
    except Exception as exc:  # noqa
        return f"exception {type(exc).__name__}"
    st = dul.state_machine.current_state
    while True:
        try:
            dul.to_user_queue.get(False)
        except _q.Empty:
            break
    dul._kill_thread = False
    dul.state_machine.current_state = "Sta1"
    return st


def judge(data, must_accept=False):
    r = feed(data)
    bad = []
    if r["raised"]:
        bad.append(("raised", f"_read_pdu_data raised {r['raised']}"))
        return bad, r
    ev = r["events"]
    if len(ev) != 1:
        bad.append((f"events-x{len(ev)}", f"{len(ev)} events queued: {ev}"))
        return bad, r
    if r["pdu"] is not None:
        if ev[0] in ("Evt17", "Evt19"):
            bad.append(("pdu-with-error-event", f"{ev[0]} queued together with a decoded {r['pdu']}"))
        elif EVENT_OF.get(data[0]) != ev[0]:
            bad.append(("wrong-event", f"type byte 0x{data[0]:02X} produced {ev[0]}"))
        if r["unstable"]:
            bad.append(("unstable-pdu", f"decoded {r['pdu']} is not stable: {r['unstable']}"))
        if r.get("react_raised"):
            bad.append((f"provider-raised-{r['react_raised'].split(':')[0]}", f"the state machine processing {ev[0]} for the decoded {r['pdu']} raised {r['react_raised']} (it would leave the provider thread)"))
    else:
        if ev[0] not in ("Evt17", "Evt19"):
            bad.append(("event-without-pdu", f"{ev[0]} queued but no PDU"))
    if must_accept and (r["pdu"] is None or ev[0] != EVENT_OF[data[0]]):
        bad.append(("conformant-rejected", f"a PDU that conforms to PS3.8 was classified as {ev[0]}"))
    return bad, r


# ---- seeds ---------------------------------------------------------------------


def seeds():
    U = [("maxlen", 16382), ("implclass", "1.2.3.4")]
    rq = lambda **kw: dict({"type": "RQ", "pv": 1, "called": "CALLED", "calling": "CALLING", "app": APP, "pcs": [{"id": 1, "abstract": VER, "ts": [T1]}], "user": list(U)}, **kw)
    ac = lambda **kw: dict({"type": "AC", "pv": 1, "called": "CALLED", "calling": "CALLING", "app": APP, "pcs": [{"id": 1, "result": 0, "ts": T1}], "user": list(U)}, **kw)
    out = {
        "rq-min": rq(),
        "rq-2cx": rq(pcs=[{"id": 1, "abstract": VER, "ts": [T1, T2]}, {"id": 3, "abstract": CT, "ts": [T2]}]),
        "rq-implver": rq(user=U + [("implver", "VERSION1")]),
        "rq-async": rq(user=U + [("async", 2, 3)]),
        "rq-role": rq(user=U + [("role", CT, True, False)]),
        "rq-sopext": rq(user=U + [("sopext", CT, b"\x01\x02")]),
        "rq-common": rq(user=U + [("common", CT, "1.2.840.10008.4.2", ["1.2.3", "1.2.4"])]),
        "rq-userid1": rq(user=U + [("userid_rq", 1, True, b"user", b"")]),
        "rq-userid2": rq(user=U + [("userid_rq", 2, False, b"user", b"pass")]),
        "ac-min": ac(),
        "ac-rejected-cx": ac(pcs=[{"id": 1, "result": 3, "ts": T1}, {"id": 3, "result": 0, "ts": T2}]),
        "ac-userid": ac(user=U + [("userid_ac", b"resp")]),
        "ac-role": ac(user=U + [("role", CT, False, True)]),
        "rj": {"type": "RJ", "result": 1, "source": 1, "reason": 1},
        "pdata-1": {"type": "PDATA", "pdvs": [(1, b"\x03" + b"\x00" * 10)]},
        "pdata-2": {"type": "PDATA", "pdvs": [(1, b"\x01ab"), (3, b"\x02cdef")]},
        "relrq": {"type": "RELRQ"},
        "relrp": {"type": "RELRP"},
        "abort": {"type": "ABORT", "source": 2, "reason": 1},
    }
    return {k: ref.encode(v) for k, v in out.items()}


def conformant_unusual():
    """PDUs valid per PS3.8 that pynetdicom's encoder never produces."""
    U = [("maxlen", 16382), ("implclass", "1.2.3.4")]
    base = {"type": "RQ", "pv": 1, "called": "CALLED", "calling": "CALLING", "app": APP, "pcs": [{"id": 1, "abstract": VER, "ts": [T1]}], "user": list(U)}
    out = {}
    out["user-info-order-reversed"] = ref.encode(dict(base, user=[("implclass", "1.2.3.4"), ("implver", "V1"), ("maxlen", 16382)]))
    out["protocol-version-extra-bits"] = ref.encode(dict(base, pv=0x0003))
    out["protocol-version-0x8001"] = ref.encode(dict(base, pv=0x8001))
    out["userid-zero-length-secondary"] = ref.encode(dict(base, user=U + [("userid_rq", 1, False, b"u", b"")]))
    b = bytearray(ref.encode(base))
    b[1] = 0xFF  # reserved byte of the PDU header
    out["reserved-header-byte-nonzero"] = bytes(b)
    b = bytearray(ref.encode(base))
    b[8:10] = b"\xab\xcd"  # reserved bytes 9-10
    out["reserved-bytes-9-10-nonzero"] = bytes(b)
    b = bytearray(ref.encode(base))
    b[42:74] = bytes(range(32))  # reserved 32 bytes
    out["reserved-32-bytes-nonzero"] = bytes(b)
    out["ae-titles-leading-spaces"] = ref.encode(dict(base, called="  CALLED", calling=" CALLING "))
    # items in another order: user information before the presentation contexts
    body = struct.pack(">HH", 1, 0) + ref._ae("CALLED") + ref._ae("CALLING") + b"\x00" * 32
    items = [ref._item(0x50, b"".join(ref.enc_subitem(s) for s in U)), ref._item(0x20, bytes([1, 0, 0, 0]) + ref._item(0x30, VER.encode()) + ref._item(0x40, T1.encode())), ref._item(0x10, APP.encode())]
    out["variable-items-reordered"] = ref._pdu(1, body + b"".join(items))
    # UID padded with one trailing NUL (PS3.5: allowed for odd-length UID values in some encoders; PS3.8 says no padding - lenient receivers accept)
    out["abstract-syntax-trailing-nul"] = ref._pdu(1, body + ref._item(0x10, APP.encode()) + ref._item(0x20, bytes([1, 0, 0, 0]) + ref._item(0x30, VER.encode() + b"\x00") + ref._item(0x40, T1.encode())) + ref._item(0x50, b"".join(ref.enc_subitem(s) for s in U)))
    # ... the same single trailing NUL on every other UID-bearing field of an A-ASSOCIATE-RQ / -AC
    # (odd-length UIDs are used so that the padded field has even length, as padding encoders produce)
    N = "\x00"
    odd = "1.2.840.10008.4.2"  # 17 characters
    nul = {
        "application-context": dict(base, app=APP + N),
        "transfer-syntax": dict(base, pcs=[{"id": 1, "abstract": VER, "ts": [T1 + N]}]),
        "implementation-class-uid": dict(base, user=[("maxlen", 16382), ("implclass", "1.2.3.4.5" + N)]),
        "role-sop-class": dict(base, user=U + [("role", odd + N, True, True)]),
        "sopext-sop-class": dict(base, user=U + [("sopext", odd + N, b"\x01\x02")]),
        "common-sop-class": dict(base, user=U + [("common", odd + N, "1.2.840.10008.4.22", [])]),
        "common-service-class": dict(base, user=U + [("common", "1.2.840.10008.5.1.4.1.1.2", odd + N, [])]),
        "common-service-class-with-related": dict(base, user=U + [("common", "1.2.840.10008.5.1.4.1.1.2", odd + N, ["1.2.840.10008.5.1.4.1.1.88.22"])]),
        "common-related-general": dict(base, user=U + [("common", "1.2.840.10008.5.1.4.1.1.2", "1.2.840.10008.4.22", [odd + N])]),
    }
    for k_, v_ in nul.items():
        out[f"{k_}-trailing-nul"] = ref.encode(v_)
    out["ac-transfer-syntax-trailing-nul"] = ref.encode({"type": "AC", "pv": 1, "called": "CALLED", "calling": "CALLING", "app": APP, "pcs": [{"id": 1, "result": 0, "ts": T1 + N}], "user": list(U)})
    # A-ASSOCIATE-AC: rejected context carrying an empty transfer syntax item (not significant when rejected)
    acbody = struct.pack(">HH", 1, 0) + ref._ae("CALLED") + ref._ae("CALLING") + b"\x00" * 32 + ref._item(0x10, APP.encode())
    acbody += ref._item(0x21, bytes([1, 0, 3, 0]) + ref._item(0x40, b"")) + ref._item(0x21, bytes([3, 0, 0, 0]) + ref._item(0x40, T1.encode()))
    acbody += ref._item(0x50, b"".join(ref.enc_subitem(s) for s in U))
    out["ac-rejected-context-empty-transfer-syntax"] = ref._pdu(2, acbody)
    # AC whose reserved AE title fields are all zero bytes (not tested on receipt)
    b = bytearray(ref.encode({"type": "AC", "pv": 1, "called": "CALLED", "calling": "CALLING", "app": APP, "pcs": [{"id": 1, "result": 0, "ts": T1}], "user": list(U)}))
    b[10:42] = b"\x00" * 32
    out["ac-reserved-titles-zero"] = bytes(b)
    # A-ABORT / RJ with reserved bytes set
    out["abort-reserved-nonzero"] = ref._pdu(7, bytes([0xAA, 0xBB, 2, 1]))
    out["release-rq-reserved-nonzero"] = ref._pdu(5, b"\x01\x02\x03\x04")
    out["pdata-even-context-id-ignored-by-dul"] = ref.encode({"type": "PDATA", "pdvs": [(1, b"\x03abc")]})
    return out


def region(b, off):
    """Which part of a valid PDU the byte at `off` belongs to (item path)."""
    if off < 6:
        return "pdu-header"
    if b[0] not in (1, 2):
        return "body"
    if off < 74:
        return "fixed"

    def walk(start, end, path):
        i = start
        while i + 4 <= end:
            it, _, ln = struct.unpack(">BBH", b[i : i + 4])
            if i <= off < i + 4 + ln:
                p = f"{path}/{it:02X}"
                if off < i + 4:
                    return p + ":hdr"
                if it in (0x20, 0x21):
                    if off < i + 8:
                        return p + ":fixed"
                    return walk(i + 8, i + 4 + ln, p) or p + ":body"
                if it == 0x50:
                    return walk(i + 4, i + 4 + ln, p) or p + ":body"
                return p + ":body"
            i += 4 + ln
        return None

    return walk(74, len(b), "") or "tail"


SUBST = [0x00, 0x01, 0x7F, 0x80, 0xFF]


def gen_inputs(quick):
    S = seeds()
    # (a) headers
    for t in range(256):
        for ln in (0, 1, 2, 4, 6, 68, 69, 70, 65535, 65536, 2**32 - 1):
            for shape in ("exact", "short", "long"):
                n = {"exact": ln, "short": max(0, ln - 1), "long": ln + 2}[shape]
                if n > 80:
                    if shape != "short":
                        continue
                    n = 80
                yield ("hdr", f"type{'valid' if 1 <= t <= 7 else 'unknown'}:{shape}"), struct.pack(">BBL", t, 0, ln) + b"\x00" * n
    # (b) mutations of seeds
    for name, b in S.items():
        yield ("seed", name), b
        for i in range(len(b)):
            yield ("prefix", name), b[:i]
        step = 1 if (len(b) < 120 or not quick) else 3
        for i in range(0, len(b), step):
            for v in SUBST + [b[i] ^ 1, (b[i] + 1) & 0xFF]:
                if v != b[i]:
                    m = bytearray(b)
                    m[i] = v
                    yield ("subst", f"{name}@{region(b, i)}"), bytes(m)
        for off, size in ref.length_fields(b):
            cur = int.from_bytes(b[off : off + size], "big")
            rest = len(b) - off - size
            for v in {0, 1, max(0, cur - 1), cur + 1, rest, rest + 1, (1 << (8 * size)) - 1}:
                if v != cur and v < (1 << (8 * size)):
                    m = bytearray(b)
                    m[off : off + size] = v.to_bytes(size, "big")
                    yield ("length", f"{name}@{region(b, off)}"), bytes(m)
        for off in ref.item_type_offsets(b):
            for v in range(256):
                if v != b[off]:
                    m = bytearray(b)
                    m[off] = v
                    yield ("itemtype", f"{name}@{region(b, off)}->{v:02X}" if v in (0x10, 0x20, 0x21, 0x30, 0x40, 0x50, 0x51, 0x52, 0x53, 0x54, 0x55, 0x56, 0x57, 0x58, 0x59) else f"{name}@{region(b, off)}->other"), bytes(m)
        for ext in (b"\x00", b"\x00\x00", b"\x50\x00\x00\x00"):
            yield ("extended", name), b + ext
            m = bytearray(b + ext)
            m[2:6] = struct.pack(">L", len(m) - 6)
            yield ("extended-consistent", name), bytes(m)
    # duplicated / reordered items on the RQ seed
    b = S["rq-implver"]
    fixed, var = b[:74], b[74:]
    its = []
    i = 0
    while i < len(var):
        ln = struct.unpack(">H", var[i + 2 : i + 4])[0]
        its.append(var[i : i + 4 + ln])
        i += 4 + ln
    import itertools

    for perm in itertools.permutations(range(len(its))):
        body = fixed[6:] + b"".join(its[j] for j in perm)
        yield ("reordered", "rq-implver"), ref._pdu(1, body)
    for j in range(len(its)):
        body = fixed[6:] + b"".join(its) + its[j]
        yield ("duplicated", "rq-implver"), ref._pdu(1, body)
        body = fixed[6:] + b"".join(x for k, x in enumerate(its) if k != j)
        yield ("item-missing", "rq-implver"), ref._pdu(1, body)
    # non-ASCII / control bytes in titles and UIDs
    for pos in (10, 25, 30):
        for v in (0x00, 0x09, 0x80, 0xE9, 0xFF):
            m = bytearray(S["rq-min"])
            m[pos] = v
            yield ("title-byte", "rq-min"), bytes(m)


def _chunk(lo, hi, quick):
    out = {}
    n = 0
    outcomes = set()
    for i, ((fam, name), data) in enumerate(gen_inputs(quick)):
        if i < lo:
            continue
        if i >= hi:
            break
        n += 1
        bad, r = judge(data, must_accept=(fam == "seed"))
        outcomes.add((fam, r["pdu"], tuple(r["events"])))
        for k, t in bad:
            out.setdefault(f"{fam}:{k}:{name}", (f"{fam} of {name} ({len(data)} bytes, {data[:24].hex()}...): {t}", {"hex": data.hex() if len(data) < 4000 else data[:4000].hex(), "must_accept": fam == "seed"}))
    return n, out, outcomes


def run(ctx: core.Ctx) -> core.Result:
    total = sum(1 for _ in gen_inputs(ctx.quick))
    res = core.pmap(_chunk, [(lo, hi, ctx.quick) for lo, hi in core.chunks(total, core.NPROC * 4)], seed=ctx.seed)
    viol, seen, n, outcomes = [], set(), 0, set()
    for cn, bad, oc in res:
        n += cn
        outcomes |= oc
        for k, (t, rp) in bad.items():
            if k not in seen:
                seen.add(k)
                viol.append(core.Violation(k, t, rp))
    nconf = 0
    for name, data in conformant_unusual().items():
        nconf += 1
        try:
            ref.decode(data)
        except ref.Malformed as exc:
            raise RuntimeError(f"conformant list entry {name} is rejected by the reference decoder itself: {exc}")
        bad, r = judge(data, must_accept=True)
        if data[0] == 1 and not bad:
            # the provider must also accept it: Sta2 + Evt6 -> Sta3 with an indication for the user
            st = accept_in_sta2(data)
            if st != "Sta3":
                bad.append(("conformant-rejected-by-provider", f"a conformant A-ASSOCIATE-RQ drove the provider from Sta2 to {st} instead of Sta3"))
        for k, t in bad:
            kk = f"conformant:{k}:{name}"
            if kk not in seen:
                seen.add(kk)
                viol.append(core.Violation(kk, f"{name}: {t}", {"hex": data.hex(), "must_accept": True}))
    cov = {
        "evaluations": n + nconf,
        "distinct_nontrivial": len(outcomes),
        "rule": "header grid 256 type bytes x 11 lengths x 3 body shapes; for each of 19 seed PDUs: every prefix, substitution of every byte (every 3rd byte for seeds > 120 bytes in the quick tier) by {00,01,7F,80,FF,b^1,b+1}, every length field set to {0,1,len-1,len+1,rest,rest+1,max}, every item-type byte replaced by every other value, 3 extensions with and without a consistent PDU length, all permutations / duplications / omissions of the variable items, control and non-ASCII bytes in titles; 16 conformant-but-unusual PDUs; distinct_nontrivial = distinct (family, decoded PDU class, event) outcomes",
        "inputs": n,
        "conformant_unusual": nconf,
        "exhaustive": True,
        "samples": [{"family": "length", "seed": "rq-role"}, {"family": "itemtype", "seed": "ac-userid"}, {"conformant": "protocol-version-extra-bits"}],
    }
    return core.Result("exploration", cov, viol, assumptions=["a decoder that runs longer than 5 s on one input is reported as a hang", "conformance of the 'unusual' list is established by the reference decoder and PS3.8 9.3 (reserved fields not tested on receipt, item order free, only bit 0 of the protocol version tested)"])


def replay(ctx, data):
    b = bytes.fromhex(data["hex"])
    bad, r = judge(b, data.get("must_accept", False))
    print(r)
    for k, t in bad:
        print("VIOLATED:", k, t)
    return 0
