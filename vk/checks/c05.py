"""C05 - no schedule drives the provider into an undefined event; it returns
to idle.

Layer A: breadth-first search over event histories (peer PDUs of 17 kinds,
close/reset, timer ticks, the local user's calls), one event per quiescent
state, with canonical-state de-duplication, for the local side as acceptor
and as requestor (several user scripts), against a scripted raw peer.  Every
explored history is also *closed* (peer goes silent, time passes) and must
bring the provider back to Sta1 with its thread finished and the transport
closed.

Layer B: the two-AE life-cycle scenarios under every schedule with at most D
deviations from the default scheduler.
"""
from __future__ import annotations

from vk import core, explore, lifecycle, monitors as M, peer

PEER_MONS = [peer.mon_peer_exceptions, peer.mon_peer_terminates, peer.mon_peer_provider_idle]
LC_MONS = [M.mon_no_thread_exception, M.mon_terminates, M.mon_provider_idle]

USER_SCRIPTS = [("associate", "release"), ("associate", "abort"), ("associate", "echo", "release")]


def run(ctx: core.Ctx) -> core.Result:
    viol = []
    depth = ctx.pick(3, 5)
    tot_states = tot_trans = tot_exec = tot_steps = 0
    per = []
    fix_all = True
    samples = []
    runs = [("acceptor", ("serve",))] + [("requestor", u) for u in USER_SCRIPTS]
    for role, user in runs:
        r = peer.bfs(role, user if role == "requestor" else ("associate", "release"), PEER_MONS, max_depth=depth, seed=ctx.seed, log=ctx.log)
        tot_states += r["states"]
        tot_trans += r["stats"].get("transitions", 0)
        tot_exec += r["stats"].get("executions", 0)
        tot_steps += r["stats"].get("steps", 0)
        fix_all = fix_all and r["fixpoint"]
        per.append({"role": role, "user": list(user), "quiescent_states": r["states"], "histories": r["stats"].get("executions", 0) // 2, "depth_completed": r["depth_completed"], "fixpoint": r["fixpoint"], "distinct_outcomes": len(r["summaries"])})
        for k, (what, hist) in r["viols"].items():
            viol.append(core.Violation(k, what, {"kind": "peer", "role": role, "user": list(user), "events": [list(e) for e in hist]}))
        top = sorted(r["summaries"].items(), key=lambda kv: -kv[1])[:3]
        samples.append({"role": role, "user": list(user), "outcomes": [{"end": k[0], "flags": k[1], "fsm": k[2], "histories": n} for k, n in top]})
    # layer B
    D = ctx.pick(1, 2)
    scns = [lifecycle.Lifecycle(rq, ac, monitors=LC_MONS) for rq in lifecycle.REQ_SCRIPTS for ac in lifecycle.ACC_SCRIPTS]
    if ctx.quick:
        scns = [s for s in scns if (s.req, s.acc) in {("release", "none"), ("release", "release"), ("abort", "abort"), ("echo-release", "abort"), ("idle", "release"), ("echo-abort", "echo-handler-release")}]
    resB = lifecycle.run_family(ctx, scns, D=D)
    viol += resB.violations
    covB = resB.coverage
    cov = {
        "states": tot_states + covB["states"],
        "transitions": tot_trans + covB["transitions"],
        "traces_validated_against_impl": tot_exec + covB["executions"],
        "layerA_quiescent_states": tot_states,
        "layerA_events_enabled_total": tot_trans,
        "layerA_executions": tot_exec,
        "layerA_depth": depth,
        "layerA_fixpoint_reached": fix_all,
        "layerA_runs": per,
        "layerB_executions": covB["executions"],
        "layerB_deviation_bound": D,
        "layerB_scenarios": covB["scenarios"],
        "layerB_distinct_outcomes": covB["distinct_outcomes_total"],
        "peer_menu": peer.PEER_ACTIONS,
        "samples": samples + covB["samples"][:2],
        "explanation": "layer A states are canonical quiescent states of the real code (FSM state, flags, queue contents, timers, thread block sites, sockets); every history is replayed on the real implementation, so all traces are validated against it by construction",
    }
    return core.Result("model_checking", cov, viol, assumptions=resB.assumptions + [f"layer A: event histories up to length {depth} (fixpoint reached: {fix_all}); events are delivered at quiescent states only - races inside a reaction are layer B's job", "canonical state merging assumes equal keys have equal futures (DESIGN.md 2.2)"])


def replay(ctx, data):
    if data.get("kind") == "peer":
        scn = peer.PeerScenario(data["role"], [tuple(e) for e in data["events"]], user=tuple(data["user"]) if data["role"] == "requestor" else ("associate", "release"), monitors=PEER_MONS)
        r = explore.execute(scn, (), want_obs=True)
        for o in r["obs"]:
            if o[0] == "evt" and o[3] in ("EVT_DATA_SENT", "EVT_DATA_RECV"):
                continue
            print(o)
        print(r["why"], r["summary"])
        for k, w in r["viol"]:
            print("VIOLATED:", k, w)
        return 1 if r["viol"] else 0
    return lifecycle.replay(ctx, data, LC_MONS)
