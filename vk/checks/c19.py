"""C19 - requests on presentation contexts that were not accepted never reach
a handler.

Complete enumeration of context IDs 0..255 relative to several accepted sets
for every DIMSE request type, through (a) the real Association._serve_request
(reactor path, also used for N-EVENT-REPORT), (b) the real
_wrap_get_move_responses -> _c_store_scp path (C-STORE sub-operation requests
during C-GET / C-MOVE) with recording handlers on every intervention event.
"""
from __future__ import annotations

from io import BytesIO

from vk import core, scp, stubs
from vk.ref import status as refstatus

IVRLE = scp.IVRLE
FILM = "1.2.840.10008.5.1.1.1"
ACCEPTED_SETS = {
    "one": [(1, "echo"), (3, "ct"), (5, "find"), (7, "film"), (9, "get"), (11, "move")],
    "sparse": [(3, "ct"), (255, "echo"), (127, "film"), (129, "find")],
    "ct-only": [(5, "ct")],
}
UIDS = {"echo": scp.ECHO, "ct": scp.CT, "find": scp.FIND, "film": FILM, "get": scp.GET, "move": scp.MOVE}
REQS = ["c-echo", "c-store", "c-find", "c-get", "c-move", "n-get", "n-set", "n-action", "n-create", "n-delete", "n-event-report"]


def _req(kind):
    from pynetdicom import dimse_primitives as dp
    from pynetdicom.dsutils import encode

    some = BytesIO(encode(scp.mk_ds(1, False), True, True))
    if kind == "c-echo":
        r = dp.C_ECHO()
        r.AffectedSOPClassUID = scp.ECHO
    elif kind == "c-store":
        r = dp.C_STORE()
        r.AffectedSOPClassUID = scp.CT
        r.AffectedSOPInstanceUID = "1.2.3"
        r.Priority = 2
        r.DataSet = some
    elif kind in ("c-find", "c-get", "c-move"):
        r = {"c-find": dp.C_FIND, "c-get": dp.C_GET, "c-move": dp.C_MOVE}[kind]()
        r.AffectedSOPClassUID = {"c-find": scp.FIND, "c-get": scp.GET, "c-move": scp.MOVE}[kind]
        r.Priority = 2
        r.Identifier = some
        if kind == "c-move":
            r.MoveDestination = "DEST"
    else:
        cls = {"n-get": dp.N_GET, "n-set": dp.N_SET, "n-action": dp.N_ACTION, "n-create": dp.N_CREATE, "n-delete": dp.N_DELETE, "n-event-report": dp.N_EVENT_REPORT}[kind]
        r = cls()
        if kind in ("n-create", "n-event-report"):
            r.AffectedSOPClassUID = FILM
            r.AffectedSOPInstanceUID = "1.2.3"
        else:
            r.RequestedSOPClassUID = FILM
            r.RequestedSOPInstanceUID = "1.2.3"
        if kind == "n-set":
            r.ModificationList = some
        if kind == "n-action":
            r.ActionTypeID = 1
            r.ActionInformation = some
        if kind == "n-create":
            r.AttributeList = some
        if kind == "n-event-report":
            r.EventTypeID = 1
            r.EventInformation = some
    r.MessageID = 11
    return r


def _assoc(set_name, calls):
    from pynetdicom import evt

    cxs = [(cid, UIDS[k], IVRLE, True, True) for cid, k in ACCEPTED_SETS[set_name]]
    assoc = stubs.make_assoc("acceptor", contexts=cxs)
    for ev in evt._INTERVENTION_EVENTS:
        if not ev.name.startswith(("EVT_C_", "EVT_N_")):
            continue

        def h(event, _n=ev.name):
            calls.append(_n)
            if _n in ("EVT_C_FIND",):
                return iter([])
            if _n == "EVT_C_GET":
                return iter([0])
            if _n == "EVT_C_MOVE":
                return iter([("127.0.0.1", 104), 0])
            if _n in ("EVT_C_ECHO", "EVT_C_STORE", "EVT_N_DELETE"):
                return 0
            return 0, None

        assoc.bind(ev, h)
    return assoc


def eval_serve(set_name, kind, cx_id):
    calls = []
    assoc = _assoc(set_name, calls)
    exc = None
    try:
        assoc._serve_request(_req(kind), cx_id)
    except Exception as e:  # noqa
        exc = f"{type(e).__name__}: {e}"
    accepted = {c for c, _ in ACCEPTED_SETS[set_name]}
    bad = []
    sent = assoc.dimse.sent
    if cx_id not in accepted:
        if calls:
            bad.append(("handler-invoked", f"{kind} on context {cx_id} (accepted {sorted(accepted)}): handlers invoked {calls}"))
        ok_rsp = [(c, s.get("Status")) for c, s in sent if s.get("Status") is not None and refstatus.category(s["Status"]) in (refstatus.SUCCESS, refstatus.PENDING, refstatus.WARNING)]
        if ok_rsp:
            bad.append(("answered-as-valid", f"{kind} on context {cx_id} (accepted {sorted(accepted)}): answered {ok_rsp}"))
        if exc:
            bad.append(("raised", f"{kind} on context {cx_id}: {exc}"))
    return bad, bool(calls)


def eval_substore(set_name, cx_id, op):
    """A C-STORE request arriving while the local SCU iterates C-GET/C-MOVE
    responses."""
    from pydicom.uid import UID
    from pynetdicom.dimse_primitives import C_GET, C_MOVE

    calls = []
    assoc = _assoc(set_name, calls)
    assoc.mode = "requestor"
    st = _req("c-store")
    st._context_id = cx_id
    fin = (C_GET if op == "get" else C_MOVE)()
    fin.MessageIDBeingRespondedTo = 1
    fin.Status = 0x0000
    assoc.dimse.script = [(cx_id, st), (9, fin)]
    out = list(assoc._wrap_get_move_responses(UID(IVRLE)))
    accepted = {c for c, k in ACCEPTED_SETS[set_name]}
    bad = []
    if cx_id not in accepted:
        if calls:
            bad.append(("substore-handler-invoked", f"C-STORE sub-operation request on context {cx_id} during C-{op.upper()} (accepted {sorted(accepted)}): handlers invoked {calls}"))
        ok_rsp = [(c, s.get("Status")) for c, s in assoc.dimse.sent if s.get("Status") is not None and refstatus.category(s["Status"]) in (refstatus.SUCCESS, refstatus.WARNING)]
        if ok_rsp:
            bad.append(("substore-answered-as-valid", f"C-STORE sub-operation request on context {cx_id} during C-{op.upper()}: answered {ok_rsp}"))
    return bad, bool(calls)


def _chunk(items):
    out = {}
    n = 0
    invoked = 0
    for it in items:
        n += 1
        if it[0] == "serve":
            _, sname, kind, cx = it
            bad, inv = eval_serve(sname, kind, cx)
            tag = f"serve:{kind}"
        else:
            _, sname, cx, op = it
            bad, inv = eval_substore(sname, cx, op)
            tag = f"sub:{op}"
        invoked += inv
        for k, t in bad:
            out.setdefault(f"{tag}:{k}", (t, list(it)))
    return n, out, invoked


def run(ctx: core.Ctx) -> core.Result:
    items = []
    for sname in ACCEPTED_SETS:
        for kind in REQS:
            for cx in range(256):
                items.append(("serve", sname, kind, cx))
        for cx in range(256):
            for op in ("get", "move"):
                items.append(("sub", sname, cx, op))
    n = core.NPROC * 4
    res = core.pmap(_chunk, [(items[i::n],) for i in range(n) if items[i::n]], seed=ctx.seed)
    viol, seen, tot, inv = [], set(), 0, 0
    for cn, bad, iv in res:
        tot += cn
        inv += iv
        for k, (t, rp) in bad.items():
            if k not in seen:
                seen.add(k)
                viol.append(core.Violation(k, t, {"item": rp}))
    # pipelined layer: the second of two back-to-back requests, through the real reactor under the simulator
    from vk.checks import c19p

    pviol, pcov = c19p.run_layer(ctx)
    for pv in pviol:
        if pv.key not in seen:
            seen.add(pv.key)
            viol.append(pv)
    tot += pcov["pipelined_executions"]
    cov = {
        **pcov,
        "evaluations": tot,
        "distinct_nontrivial": len({(i[1], i[3] if i[0] == "serve" else i[2]) for i in items}),
        "rule": "3 accepted-context sets x 11 request types x all context IDs 0..255 through _serve_request, plus C-STORE sub-operation requests on all 256 IDs during C-GET and C-MOVE response iteration; distinct = (accepted set, context ID) pairs; pipelined layer: a raw peer sends C-ECHO-RQ on an accepted context immediately followed by a second request (6 types) on every context ID, to the real acceptor reactor under the simulator, with the first handler held until the second message is queued",
        "handler_invocations_on_accepted_contexts": inv,
        "exhaustive": True,
        "samples": [list(items[i]) for i in ctx.sample_indices(len(items), 5)],
    }
    return core.Result("exploration", cov, viol, assumptions=["requests are delivered as decoded primitives with their context ID (the decoding path is covered by C17/C15)", "DIMSE provider is a recording double; an abort of the association is the expected reaction"])


def replay(ctx, data):
    it = data["item"]
    if it[0] == "pipelined":
        from vk.checks import c19p

        return c19p.replay_item(it[1], it[2], it[3] if len(it) > 3 else None)
    print(eval_serve(it[1], it[2], it[3]) if it[0] == "serve" else eval_substore(it[1], it[2], it[3]))
    return 0
