"""C14 - concurrent acceptor associations never exceed the configured maximum.

A real acceptor AE with maximum_associations = L and N = L+1 (thorough also
L+2) real requestors connecting at once; every schedule of the negotiation
threads, the server thread, the provider threads and the user threads with at
most D deviations from the default scheduler.  At every EVT_ESTABLISHED of an
acceptor association the number of simultaneously established acceptor
associations of the AE is counted; every rejection is checked for the
(transient, presentation, local-limit-exceeded) reason.
"""
from __future__ import annotations

from vk import core, explore, scen, sim, monitors as M
from vk.explore import Scenario


SLOW_EVENTS = ["EVT_CONN_OPEN", "EVT_REQUESTED", "EVT_ACSE_RECV", "EVT_PDU_RECV", "EVT_ACCEPTED", "EVT_ACSE_SENT", "EVT_FSM_TRANSITION"]


class Crowd(Scenario):
    max_steps = 120000
    max_time = 60.0

    def __init__(self, limit, n, hold=0.3, stagger=0.0, slow=None, threaded=False):
        self.limit, self.n, self.hold, self.stagger, self.slow, self.threaded = limit, n, hold, stagger, slow, threaded
        self.name = f"crowd[limit={limit},n={n},hold={hold},stagger={stagger}{',slow=' + slow if slow else ''}{',threaded-server' if threaded else ''}]"

    def build(self, s):
        from pynetdicom import evt

        acc = scen.make_ae("ACC")
        acc.add_supported_context(scen.VERIFICATION)
        acc.maximum_associations = self.limit
        ctx = {"acc": [], "peak": 0, "over": [], "req": [], "established_evts": 0}

        def on_est(event):
            a = event.assoc
            if a not in ctx["acc"]:
                ctx["acc"].append(a)
            ctx["established_evts"] += 1
            live = [x for x in ctx["acc"] if x.__dict__.get("_w_is_established")]
            ctx["peak"] = max(ctx["peak"], len(live))
            if len(live) > self.limit:
                ctx["over"].append(len(live))

        handlers = [(evt.EVT_ESTABLISHED, on_est)]
        if self.slow:
            # an acceptor-side notification handler that takes a little while: the thread that runs it
            # (connection handler, negotiation or provider thread) is overtaken by the other requests
            handlers.append((getattr(evt, self.slow), lambda event: s.sleep(0.05)))
        scen.start_server(s, acc, handlers, max_requests=self.n, threaded=self.threaded)

        def mk_user(i):
            def user():
                if self.stagger and i:
                    s.block("user.stagger", None, None, timeout=self.stagger * i)
                rq = scen.make_ae(f"REQ{i}")
                rq.add_requested_context(scen.VERIFICATION)
                a = rq.associate("127.0.0.1", scen.PORT)
                rec = {"i": i, "established": a.is_established, "rejected": a.is_rejected, "aborted": a.is_aborted, "rj": None}
                if a.is_rejected:
                    p = a.acceptor.primitive
                    rec["rj"] = (p.result, p.result_source, p.diagnostic)
                ctx["req"].append(rec)
                if a.is_established:
                    s.block("user.hold", None, None, timeout=self.hold)
                    a.release()
                    rec["released"] = a.is_released

            return user

        for i in range(self.n):
            s.spawn(mk_user(i), f"user{i}")
        return ctx

    def check(self, s, ctx, why):
        v = []
        tag = self.name
        for th, k, msg in M.thread_exceptions(s):
            v.append((f"{tag}:uncaught-{k}-in-{th.split('#')[0]}", f"{tag}: uncaught exception in {th}: {msg}"))
        if ctx["over"]:
            v.append((f"{tag}:limit-exceeded", f"{tag}: {max(ctx['over'])} acceptor associations established at once, maximum_associations = {self.limit}"))
        for r in ctx["req"]:
            if r["rejected"] and r["rj"] != (2, 3, 2):
                v.append((f"{tag}:reject-reason-{r['rj']}", f"{tag}: request {r['i']} rejected with (result, source, reason) = {r['rj']}, expected (2, 3, 2)"))
        if why != "terminated":
            v.append((f"{tag}:not-terminated-{why}", f"{tag}: ended {why}: {[b[:3] for b in s.describe_blocked()][:6]}"))
        n_ok = sum(1 for r in ctx["req"] if r["established"])
        if self.n <= self.limit and n_ok != self.n:
            v.append((f"{tag}:under-limit-rejected", f"{tag}: only {n_ok} of {self.n} requests accepted although the limit is {self.limit}"))
        return v

    def summary(self, s, ctx, why):
        return (why, ctx["peak"], tuple(sorted((r["established"], r["rejected"], r["aborted"]) for r in ctx["req"])))


def run(ctx: core.Ctx) -> core.Result:
    scns = [Crowd(1, 2), Crowd(2, 3), Crowd(1, 2, stagger=0.301), Crowd(1, 1), Crowd(2, 2)]
    # the server of AE.start_server(block=False): one handler thread per connection
    scns += [Crowd(1, 2, threaded=True), Crowd(2, 3, threaded=True)]
    # default schedule only (D = 0, see below): a slow acceptor-side handler at each early event
    slow_scns = [Crowd(lim, lim + 1, slow=ev, threaded=th) for lim in (1, 2) for ev in SLOW_EVENTS for th in (False, True)]
    if not ctx.quick:
        scns += [Crowd(1, 3), Crowd(2, 4), Crowd(2, 3, stagger=0.15)]
    D = 1
    res = list(explore.explore_family(scns, D=D, seed=ctx.seed)) + list(explore.explore_family(slow_scns, D=0 if ctx.quick else 1, seed=ctx.seed))
    scns = scns + slow_scns
    deep = []
    if not ctx.quick:
        # two deviations: only for the smallest crowd (limit 1, two requestors) - with three or four
        # requestors the number of schedules with two deviations is in the tens of millions
        deep = [Crowd(1, 2), Crowd(1, 2, stagger=0.301)]
        res = list(res) + list(explore.explore_family(deep, D=2, seed=ctx.seed))
        for d_ in deep:
            d_.name += ",D=2"
        scns = scns + deep
    viol, seen = [], set()
    tot = {"executions": 0, "steps": 0, "decisions": 0}
    outcomes = {}
    for scn, r in zip(scns, res):
        for k in tot:
            tot[k] += r["stats"].get(k, 0)
        outcomes[scn.name] = sorted({(k[1], k[2]) for k in r["summaries"]})
        for k, (t, pfx) in r["viols"].items():
            if k not in seen:
                seen.add(k)
                viol.append(core.Violation(k, t, {"limit": scn.limit, "n": scn.n, "hold": scn.hold, "stagger": scn.stagger, "slow": scn.slow, "threaded": scn.threaded, "choices": pfx}))
        ctx.log(f"{scn.name}: executions={r['stats']['executions']} outcomes={len(r['summaries'])} peaks={sorted({k[1] for k in r['summaries']})}")
    cov = {
        "states": tot["steps"],
        "transitions": tot["decisions"],
        "traces_validated_against_impl": tot["executions"],
        "deviation_bound_completed": D,
        "deviation_bound_smallest_crowd": 2 if deep else 1,
        "scenarios": [s_.name for s_ in scns],
        "distinct_outcomes": sum(len(v) for v in outcomes.values()),
        "samples": [{"scenario": k, "peak_and_results": [list(map(str, x)) for x in v[:3]]} for k, v in list(outcomes.items())[:3]],
        "explanation": "every execution runs the real AssociationServer request handling, ACSE negotiation and association/provider threads of N+1 associations under the controlled scheduler",
    }
    return core.Result("model_checking", cov, viol, assumptions=["same trusted base as C05/C06", "over-rejection while negotiations overlap is allowed by the property; only the upper bound and the rejection reason are judged"])


def replay(ctx, data):
    scn = Crowd(data["limit"], data["n"], data.get("hold", 0.3), data.get("stagger", 0.0), data.get("slow"), data.get("threaded", False))
    r = explore.execute(scn, tuple(data["choices"]), want_obs=True)
    for o in r["obs"]:
        if o[0] != "evt":
            print(o)
    print(r["why"], r["summary"])
    for k, w in r["viol"]:
        print("VIOLATED:", k, w)
    return 1 if r["viol"] else 0
