"""C25 - datasets arrive exactly as sent, for every transfer syntax and
storage mode.

Two real AEs under the simulator: datasets = every single element and every
pair of a pool covering the VR classes plus the full pool; transfer syntaxes
implicit/explicit little endian, explicit big endian, deflated; maximum PDU 0,
16382 and small values that split inside element headers; chunked send and
chunked receive on/off; operations C-STORE, C-FIND identifier and response,
C-GET sub-operation, N-SET, N-CREATE, N-ACTION, N-EVENT-REPORT.  At the peer
handler the decoded dataset, the raw encoded bytes and (chunked receive) the
file on disk must each equal the original; responses must equal at the SCU.
"""
from __future__ import annotations

import itertools
import os
import tempfile
from io import BytesIO

from vk import core, explore, scen, sim, monitors as M

CT = "1.2.840.10008.5.1.4.1.1.2"
FIND = "1.2.840.10008.5.1.4.1.2.1.1"
GET = "1.2.840.10008.5.1.4.1.2.1.3"
FILM = "1.2.840.10008.5.1.1.1"
TS = {"IVRLE": "1.2.840.10008.1.2", "EVRLE": "1.2.840.10008.1.2.1", "EVRBE": "1.2.840.10008.1.2.2", "DEFL": "1.2.840.10008.1.2.1.99"}


def pool():
    """element name -> setter(ds)"""
    from pydicom.dataset import Dataset
    from pydicom.sequence import Sequence

    def seq(ds):
        it = Dataset()
        it.CodeValue = "ABC"
        it.CodeMeaning = "meaning"
        ds.ConceptNameCodeSequence = Sequence([it])

    def eseq(ds):
        ds.ReferencedStudySequence = Sequence([])

    def nseq(ds):
        inner = Dataset()
        inner.ReferencedSOPInstanceUID = "1.2.3.4.5"
        it = Dataset()
        it.ReferencedSeriesSequence = Sequence([inner, Dataset()])
        ds.ReferencedPerformedProcedureStepSequence = Sequence([it])

    return {
        "LO_odd": lambda ds: setattr(ds, "PatientID", "123"),
        "PN": lambda ds: setattr(ds, "PatientName", "Citizen^Jan^^Dr"),
        "UI": lambda ds: setattr(ds, "StudyInstanceUID", "1.2.840.113619.2.1"),
        "DS": lambda ds: setattr(ds, "PatientWeight", "71.5"),
        "IS": lambda ds: setattr(ds, "SeriesNumber", "7"),
        "US": lambda ds: setattr(ds, "Rows", 512),
        "SS": lambda ds: setattr(ds, "TagAngleSecondAxis", -3),
        "FL": lambda ds: setattr(ds, "RecommendedDisplayFrameRateInFloat", 1.5),
        "FD": lambda ds: setattr(ds, "RealWorldValueIntercept", -2.25),
        "AT": lambda ds: setattr(ds, "FrameIncrementPointer", 0x00181063),
        "OB_even": lambda ds: ds.add_new(0x00420011, "OB", b"\x01\x02\x03\x04"),
        "OW": lambda ds: ds.add_new(0x00281201, "OW", b"\x01\x02\x03\x04\x05\x06"),
        "empty": lambda ds: setattr(ds, "AccessionNumber", ""),
        "multi": lambda ds: setattr(ds, "ImageType", ["ORIGINAL", "PRIMARY", "AXIAL"]),
        "SQ": seq,
        "SQ_empty": eseq,
        "SQ_nested": nseq,
        "DA_TM": lambda ds: (setattr(ds, "StudyDate", "20200131"), setattr(ds, "StudyTime", "235959.123")),
    }


def make_ds(keys, store=True):
    from pydicom.dataset import Dataset

    ds = Dataset()
    p = pool()
    for k in keys:
        p[k](ds)
    if store:
        ds.SOPClassUID = CT
        ds.SOPInstanceUID = "1.2.3.4"
    return ds


class Transfer(explore.Scenario):
    max_steps = 400000
    max_time = 60.0

    def __init__(self, op, keys, ts, max_pdu, chunk_send, chunk_recv, tmpdir, ds_ts=None):
        self.op, self.keys, self.ts, self.max_pdu, self.cs, self.cr, self.tmpdir = op, tuple(keys), ts, max_pdu, chunk_send, chunk_recv, tmpdir
        # ds_ts: the transfer syntax the dataset itself declares in its file meta, when it differs from
        # the accepted context's (pynetdicom converts between uncompressed / deflated syntaxes)
        self.ds_ts = ds_ts
        self.name = f"transfer[{op},{ts},max={max_pdu},cs={int(chunk_send)},cr={int(chunk_recv)}{'' if ds_ts is None else ',dataset-declares-' + ds_ts}]"

    def build(self, s):
        from pydicom import dcmread
        from pydicom.dataset import Dataset, FileMetaDataset
        from pydicom.uid import UID
        from pynetdicom import _config, evt
        from pynetdicom.dsutils import decode

        ts = TS[self.ts]
        u = UID(ts)
        ctx = {"res": {}, "seen": [], "cfg": (_config.STORE_SEND_CHUNKED_DATASET, _config.STORE_RECV_CHUNKED_DATASET)}
        _config.STORE_SEND_CHUNKED_DATASET = self.cs
        _config.STORE_RECV_CHUNKED_DATASET = self.cr
        orig = make_ds(self.keys, store=self.op in ("store", "get"))
        ctx["orig"] = orig
        acc = scen.make_ae("ACC")
        acc.maximum_pdu_size = self.max_pdu
        rq = scen.make_ae("REQ")
        rq.maximum_pdu_size = self.max_pdu
        for sop in (CT, FIND, GET, FILM):
            acc.add_supported_context(sop, [ts], scu_role=True, scp_role=True) if sop == CT else acc.add_supported_context(sop, [ts])
            rq.add_requested_context(sop, [ts])

        def same(a, b):
            return a == b

        def on_store(event):
            obs = {}
            if not self.cr:
                obs["decoded"] = same(event.dataset, orig)
            try:
                raw = event.encoded_dataset(include_meta=False)
                back = decode(BytesIO(raw), u.is_implicit_VR, u.is_little_endian, u.is_deflated)
                obs["raw"] = same(back, orig)
                obs["raw_len"] = len(raw)
            except Exception as exc:
                obs["raw"] = f"raised {type(exc).__name__}: {exc}"
            if self.cr:
                try:
                    p = event.dataset_path
                    f = dcmread(os.fspath(p))
                    f2 = Dataset()
                    f2.update({k: v for k, v in f.items()})
                    obs["file"] = same(f2, orig)
                    obs["file_ts"] = str(f.file_meta.TransferSyntaxUID) == ts
                except Exception as exc:
                    obs["file"] = f"raised {type(exc).__name__}: {exc}"
            ctx["seen"].append(("store", obs))
            return 0

        def on_find(event):
            ctx["seen"].append(("find", {"identifier": same(event.identifier, orig)}))
            yield 0xFF00, orig

        def on_get(event):
            yield 1
            yield 0xFF00, _with_meta(make_ds(self.keys), TS[self.ds_ts] if self.ds_ts else ts)

        def on_n(event):
            attr = {"EVT_N_SET": "modification_list", "EVT_N_CREATE": "attribute_list", "EVT_N_ACTION": "action_information", "EVT_N_EVENT_REPORT": "event_information"}[event.event.name]
            ctx["seen"].append((event.event.name, {"dataset": same(getattr(event, attr), orig)}))
            return 0, orig

        handlers = [(evt.EVT_C_STORE, on_store), (evt.EVT_C_FIND, on_find), (evt.EVT_C_GET, on_get), (evt.EVT_N_SET, on_n), (evt.EVT_N_CREATE, on_n), (evt.EVT_N_ACTION, on_n), (evt.EVT_N_EVENT_REPORT, on_n)]
        scen.start_server(s, acc, handlers, max_requests=1)

        def user():
            from pynetdicom import build_role

            ext = [build_role(CT, scp_role=True, scu_role=True)]
            a = rq.associate("127.0.0.1", scen.PORT, ext_neg=ext, evt_handlers=[(evt.EVT_C_STORE, on_store)])
            if not a.is_established:
                ctx["res"]["assoc"] = "not-established"
                return
            try:
                if self.op == "store":
                    ds = _with_meta(make_ds(self.keys), TS[self.ds_ts] if self.ds_ts else ts)
                    if self.cs:
                        path = os.path.join(self.tmpdir, f"send_{os.getpid()}.dcm")
                        ds.save_as(path, enforce_file_format=True) if hasattr(ds, "save_as") else None
                        st = a.send_c_store(path)
                    else:
                        st = a.send_c_store(ds)
                    ctx["res"]["status"] = st.get("Status")
                elif self.op == "find":
                    out = list(a.send_c_find(orig, FIND))
                    ctx["res"]["status"] = out[-1][0].get("Status") if out else None
                    pend = [d for st, d in out if st.get("Status") == 0xFF00]
                    ctx["res"]["response_equal"] = len(pend) == 1 and same(pend[0], orig)
                elif self.op == "get":
                    q = Dataset()
                    q.QueryRetrieveLevel = "PATIENT"
                    q.PatientID = "1"
                    out = list(a.send_c_get(q, GET))
                    ctx["res"]["status"] = out[-1][0].get("Status") if out else None
                else:
                    fn = {"n_set": lambda: a.send_n_set(orig, FILM, "1.2.3"), "n_create": lambda: a.send_n_create(orig, FILM, "1.2.3"), "n_action": lambda: a.send_n_action(orig, 1, FILM, "1.2.3"), "n_event_report": lambda: a.send_n_event_report(orig, 1, FILM, "1.2.3")}[self.op]
                    st, rsp = fn()
                    ctx["res"]["status"] = st.get("Status")
                    ctx["res"]["response_equal"] = rsp is not None and same(rsp, orig)
            except Exception as exc:
                ctx["res"]["raised"] = f"{type(exc).__name__}: {exc}"
            if a.is_established:
                a.release()

        s.spawn(user, "user")
        return ctx

    def check(self, s, ctx, why):
        from pynetdicom import _config

        _config.STORE_SEND_CHUNKED_DATASET, _config.STORE_RECV_CHUNKED_DATASET = ctx["cfg"]
        v = []
        tag = f"{self.op}:{self.ts}:cs{int(self.cs)}cr{int(self.cr)}"
        desc = f"{self.name} dataset {list(self.keys)}"
        for th, k, msg in M.thread_exceptions(s):
            v.append((f"{tag}:uncaught-{k}", f"{desc}: uncaught exception in {th}: {msg}"))
        if why != "terminated":
            v.append((f"{tag}:not-terminated-{why}", f"{desc}: ended {why}"))
        res = ctx["res"]
        if res.get("raised"):
            v.append((f"{tag}:api-raised", f"{desc}: {res['raised']}"))
            return v
        if res.get("status") != 0:
            v.append((f"{tag}:status-{res.get('status')}", f"{desc}: operation ended with status {res.get('status')}"))
        if not ctx["seen"]:
            v.append((f"{tag}:handler-not-reached", f"{desc}: the peer handler never saw the dataset"))
        for kind, obs in ctx["seen"]:
            for field, val in obs.items():
                if field in ("raw_len",):
                    continue
                if val is not True:
                    v.append((f"{tag}:{kind}-{field}", f"{desc}: at the {kind} handler, {field} = {val!r} (must equal the dataset sent)"))
        if res.get("response_equal") is False:
            v.append((f"{tag}:response-differs", f"{desc}: the response dataset at the SCU differs from the handler's"))
        return v

    def summary(self, s, ctx, why):
        return (why, ctx["res"].get("status"), tuple((k, tuple(sorted((a, str(b)) for a, b in o.items() if a != "raw_len"))) for k, o in ctx["seen"]))


def _with_meta(ds, ts):
    from pydicom.dataset import FileMetaDataset

    ds.file_meta = FileMetaDataset()
    ds.file_meta.TransferSyntaxUID = ts
    ds.file_meta.MediaStorageSOPClassUID = CT
    ds.file_meta.MediaStorageSOPInstanceUID = "1.2.3.4"
    return ds


def gen(quick):
    keys = list(pool())
    singles = [(k,) for k in keys]
    pairs = list(itertools.combinations(keys, 2))
    full = [tuple(keys)]
    small_pdus = [32, 41] if quick else [26, 32, 41, 57]
    for ts in TS:
        for ks in singles + full + (pairs if not quick else pairs[:: max(1, len(pairs) // 12)]):
            yield ("store", ks, ts, 16382, False, False)
        for mp in [0] + small_pdus:
            yield ("store", full[0], ts, mp, False, False)
        for cs, cr in ((True, False), (False, True), (True, True)):
            for ks in (full[0], ("LO_odd",), ("SQ_nested", "OB_even")):
                yield ("store", ks, ts, 16382, cs, cr)
            yield ("store", full[0], ts, small_pdus[0], cs, cr)
        for op in ("find", "get", "n_set", "n_create", "n_action", "n_event_report"):
            for ks in (full[0], ("PN", "SQ")):
                yield (op, ks, ts, 16382, False, False)
            yield (op, full[0], ts, small_pdus[-1], False, False)
        yield ("get", full[0], ts, 16382, False, True)
    # datasets that declare another (convertible) transfer syntax than the accepted context's
    conv = [k for k in TS if k != "EVRBE"]
    for ts in conv:
        for ds_ts in conv:
            if ds_ts != ts:
                for op in ("store", "get"):
                    yield (op, full[0], ts, 16382, False, False, ds_ts)
                    yield (op, ("LO_odd",), ts, small_pdus[0], False, False, ds_ts)


def _chunk(cases):
    tmp = tempfile.mkdtemp(prefix="vk-c25-")
    out = {}
    outcomes = set()
    try:
        for c in cases:
            scn = Transfer(*c[:6], tmpdir=tmp, ds_ts=c[6] if len(c) > 6 else None)
            r = explore.execute(scn, ())
            outcomes.add((c[0], c[2], r["summary"][2]))
            for k, t in r["viol"]:
                out.setdefault(k + (f":declares-{c[6]}" if len(c) > 6 else ""), (t, {"case": [c[0], list(c[1]), c[2], c[3], c[4], c[5]] + ([c[6]] if len(c) > 6 else [])}))
    finally:
        for fn in os.listdir(tmp):
            try:
                os.unlink(os.path.join(tmp, fn))
            except OSError:
                pass
        os.rmdir(tmp)
    return len(cases), out, outcomes


def run(ctx: core.Ctx) -> core.Result:
    cases = list(gen(ctx.quick))
    n = core.NPROC * 4
    res = core.pmap(_chunk, [(cases[i::n],) for i in range(n) if cases[i::n]], seed=ctx.seed)
    viol, seen, tot, outcomes = [], set(), 0, set()
    for cn, bad, oc in res:
        tot += cn
        outcomes |= oc
        for k, (t, rp) in bad.items():
            if k not in seen:
                seen.add(k)
                viol.append(core.Violation(k, t, rp))
    idx = ctx.sample_indices(len(cases), 5)
    cov = {
        "evaluations": tot,
        "distinct_nontrivial": len({(c[0], c[1], c[2]) for c in cases}),
        "rule": "datasets: each of 18 pool elements alone, the full pool and (thorough: all, quick: every 12th) pairs; 4 transfer syntaxes; maximum PDU {0, 16382, small}; chunked send x chunked receive; C-STORE, C-FIND identifier+response, C-GET sub-operation, N-SET/CREATE/ACTION/EVENT-REPORT request+response; each a real association under the simulator",
        "distinct_outcomes": len(outcomes),
        "exhaustive": True,
        "samples": [{"op": cases[i][0], "elements": list(cases[i][1])[:4], "ts": cases[i][2], "max_pdu": cases[i][3], "chunked_send": cases[i][4], "chunked_recv": cases[i][5]} for i in idx],
    }
    return core.Result("exploration", cov, viol, assumptions=["pydicom's dataset codec and Dataset equality are trusted (both sides use them)", "private elements are excluded (implicit VR cannot carry their VR)"])


def replay(ctx, data):
    c = data["case"]
    tmp = tempfile.mkdtemp(prefix="vk-c25-")
    r = explore.execute(Transfer(c[0], tuple(c[1]), c[2], c[3], c[4], c[5], tmpdir=tmp, ds_ts=c[6] if len(c) > 6 else None), ())
    print(r["why"], r["summary"])
    for k, t in r["viol"]:
        print("VIOLATED:", k, t)
    return 0
