"""C07 - a peer's release request is always answered with a release response.

A raw DIMSE peer (hand-built bytes) runs C-FIND / C-GET / C-MOVE operations
against a real acceptor whose handlers yield n = 0..3 results (C-MOVE
sub-operations go over a real sub-association to a second real AE under the
same scheduler), and sends A-RELEASE-RQ
at every arrival point: while idle, before/between/after every yield of the
handler (the handler is held until the request has reached the local
provider), during every C-STORE sub-operation of a C-GET, and after the final
response; each under every schedule with at most D deviations.
"""
from __future__ import annotations

from vk import core, dimsepeer as dp, explore, scen, sim, monitors as M
from vk.explore import Scenario

IVRLE = scen.IVRLE


class ReleaseDuring(Scenario):
    max_steps = 60000
    max_time = 40.0

    def __init__(self, op, n, point, bad=None):
        self.op, self.n, self.point, self.bad = op, n, point, bad
        self.name = f"release-during[{op},n={n},{point[0]}{'' if len(point) < 2 else point[1]}{'' if bad is None else ',unencodable-instance-' + str(bad)}]"

    def build(self, s):
        from pydicom.dataset import Dataset
        from pynetdicom import evt

        op, n, point = self.op, self.n, self.point
        ctx = {"res": {}, "acc_assocs": [], "peer": {}, "handler_log": []}
        rec = scen.Recorder(s, "loc")
        ctx["rec"] = rec
        ae = scen.make_ae("ACC")
        ae.add_supported_context(dp.FIND)
        ae.add_supported_context(dp.GET)
        ae.add_supported_context(dp.MOVE)
        ae.add_supported_context(dp.CT, scu_role=True, scp_role=True)
        if op == "move":
            # the Move Destination: a second real AE (Storage SCP) under the same scheduler
            ae.add_requested_context(dp.CT, [IVRLE])
            dest = scen.make_ae("DEST")
            dest.add_supported_context(dp.CT, [IVRLE])
            ctx["dest_stores"] = []
            ctx["dest_server"] = scen.start_server(s, dest, [(evt.EVT_C_STORE, lambda e: ctx["dest_stores"].append(1) or 0)], port=scen.PORT + 1, max_requests=1)
        flags = {"send_release": False, "release_sent_at": None}
        ctx["flags"] = flags

        def release_seen():
            return any(x[2] == "EVT_PDU_RECV" and x[3] == "A_RELEASE_RQ" for x in rec.log)

        def hold(k):
            if point == ("yield", k):
                flags["send_release"] = True
                s.block("handler.wait", "release", release_seen, 10.0)
                ctx["handler_log"].append(("held", k, release_seen()))

        def mk(k=None):
            ds = Dataset()
            if k is not None and k == self.bad:
                ds.Rows = 70000  # a sub-operation instance that cannot be encoded (US value out of range)
            ds.PatientID = "1"
            ds.SOPClassUID = dp.CT
            ds.SOPInstanceUID = "1.2.3"
            ds.QueryRetrieveLevel = "PATIENT"
            if op in ("get", "move"):
                from pydicom.dataset import FileMetaDataset

                ds.file_meta = FileMetaDataset()
                ds.file_meta.TransferSyntaxUID = IVRLE
            return ds

        def on_find(event):
            for k in range(n + 1):
                hold(k)
                if k < n:
                    ctx["handler_log"].append(("yield", k))
                    yield 0xFF00, mk(k)

        def on_get(event):
            yield n
            for k in range(n + 1):
                hold(k)
                if k < n:
                    ctx["handler_log"].append(("yield", k))
                    yield 0xFF00, mk(k)

        def on_move(event):
            yield ("127.0.0.1", scen.PORT + 1)
            yield n
            for k in range(n + 1):
                hold(k)
                if k < n:
                    ctx["handler_log"].append(("yield", k))
                    yield 0xFF00, mk(k)

        handlers = list(rec.handlers()) + [(evt.EVT_C_FIND, on_find), (evt.EVT_C_GET, on_get), (evt.EVT_C_MOVE, on_move), (evt.EVT_ESTABLISHED, lambda e: ctx["acc_assocs"].append(e.assoc))]
        scen.start_server(s, ae, handlers, max_requests=1)
        PS = ctx["peer"]
        PS.update(rp_at=None, abort=False, eof=False, final=None, stores=0, log=[])

        def peer_main():
            so = sim.SimSocket()
            so.connect(("127.0.0.1", scen.PORT))
            so.send(dp.assoc_rq([(1, dp.FIND, [IVRLE]), (3, dp.GET, [IVRLE]), (5, dp.CT, [IVRLE]), (7, dp.MOVE, [IVRLE])], roles=[(dp.CT, 0, 1)]))
            rd = dp.MessageReader()
            seen_msgs = 0
            seen_pdus = 0
            state = {"req_sent": False, "released": False}

            def send_release(tag):
                if not state["released"]:
                    state["released"] = True
                    flags["release_sent_at"] = s.now
                    PS["log"].append(("release-rq", tag))
                    so.send(dp.P.RELEASE_RQ)

            t_end = s.now + 30.0
            while s.now < t_end:
                if flags["send_release"]:
                    flags["send_release"] = False
                    send_release("handler")
                if not so.readable():
                    ok = s.block("peer.wait", "peer", lambda: so.readable() or flags["send_release"], 12.0)
                    if not ok:
                        PS["log"].append("peer-timeout")
                        break
                    continue
                try:
                    d = so.recv(65536)
                except OSError:
                    d = b""
                if not d:
                    PS["eof"] = True
                    break
                rd.feed(d)
                for t, body in rd.pdus[seen_pdus:]:
                    if t == 2 and not state["req_sent"]:
                        state["req_sent"] = True
                        rq_bytes = dp.find_rq(1, 21) if op == "find" else (dp.get_rq(3, 21) if op == "get" else dp.move_rq(7, 21))
                        if point == ("idle",):
                            send_release("idle")
                        elif point[0] == "with-request":
                            # request and release request back to back: both are pending when the reactor
                            # takes the request off its queue (one segment, or two segments)
                            state["released"] = True
                            flags["release_sent_at"] = s.now
                            PS["log"].append(("release-rq", "with-request"))
                            if point[1] == "one-segment":
                                so.send(rq_bytes + dp.P.RELEASE_RQ)
                            else:
                                so.send(rq_bytes)
                                so.send(dp.P.RELEASE_RQ)
                        else:
                            so.send(rq_bytes)
                    elif t == 6:
                        PS["rp_at"] = s.now
                    elif t == 7:
                        PS["abort"] = True
                seen_pdus = len(rd.pdus)
                for m in rd.msgs[seen_msgs:]:
                    if m["field"] == dp.C_STORE_RQ:
                        PS["stores"] += 1
                        if point == ("substore", PS["stores"] - 1):
                            # the release request takes the place of the C-STORE
                            # response: nothing may follow an A-RELEASE-RQ
                            send_release("substore")
                        elif not state["released"]:
                            so.send(dp.store_rsp(m["cx"], m["msg_id"]))
                            PS["store_rsps"] = PS.get("store_rsps", 0) + 1
                    elif m["field"] in (dp.C_FIND_RSP, dp.C_GET_RSP, dp.C_MOVE_RSP) and m["status"] not in (0xFF00, 0xFF01):
                        PS["final"] = m["status"]
                        if point == ("after",):
                            send_release("after")
                seen_msgs = len(rd.msgs)
                if PS["rp_at"] is not None or PS["abort"]:
                    break
            PS["msgs"] = [(m["field"], m["status"]) for m in rd.msgs]
            so.close()
            if "dest_server" in ctx:
                ctx["dest_server"]._sim_stop()  # harness thread: the destination stops listening once the peer is done

        s.spawn(peer_main, "peer")
        return ctx

    def check(self, s, ctx, why):
        v = []
        PS, flags = ctx["peer"], ctx["flags"]
        tag = self.name
        for th, k, msg in M.thread_exceptions(s):
            v.append((f"{tag}:uncaught-{k}-in-{th}", f"{tag}: uncaught exception in {th}: {msg}"))
        if flags["release_sent_at"] is None:
            v.append((f"{tag}:vacuous", f"{tag}: the release request was never sent (scenario did not reach its arrival point): {PS['log']} {ctx['handler_log']}"))
            return v
        a = ctx["acc_assocs"][0] if ctx["acc_assocs"] else None
        o = scen.assoc_outcome(a) if a is not None else None
        # the property exempts a local abort - but only one that is not itself
        # the late consequence (network/ACSE timeout) of leaving the request unanswered
        t_rq = next((x[4] for x in ctx["rec"].log if x[2] == "EVT_PDU_RECV" and x[3] == "A_RELEASE_RQ"), None)
        t_ab = next((x[4] for x in ctx["rec"].log if x[2] == "EVT_ACSE_SENT" and x[3][0] in ("A_ABORT", "A_P_ABORT")), None)
        if t_ab is not None and (t_rq is None or t_ab <= t_rq + 0.5):
            return v
        # a C-STORE sub-operation the peer left unanswered (it released instead)
        # legitimately ends in the documented DIMSE-timeout abort
        t_st = [x[4] for x in ctx["rec"].log if x[2] == "EVT_DIMSE_SENT" and x[3] == "C_STORE_RQ"]
        if t_ab is not None and PS["stores"] > PS.get("store_rsps", 0) and t_st and t_ab >= t_st[-1] + scen.TIMEOUTS["dimse"] - 0.01:
            return v
        if PS["rp_at"] is None:
            v.append((f"{tag}:no-release-rp", f"{tag}: A-RELEASE-RQ sent at t={flags['release_sent_at'] - s.t0:.3f}s was never answered with A-RELEASE-RP (peer saw abort={PS['abort']} eof={PS['eof']}, local outcome {o}, end={why})"))
        else:
            dt = PS["rp_at"] - flags["release_sent_at"]
            # a sub-operation left unanswered by the peer costs one DIMSE timeout
            if dt > 0.5 + (scen.TIMEOUTS["dimse"] if self.point[0] == "substore" else 0):
                v.append((f"{tag}:late-release-rp", f"{tag}: A-RELEASE-RP arrived {dt:.2f}s after the request (handler work is instantaneous)"))
            if not o or not o["released"] or o["aborted"]:
                v.append((f"{tag}:not-released", f"{tag}: release was answered but the local association ended {o}"))
        if why != "terminated":
            v.append((f"{tag}:not-terminated-{why}", f"{tag}: ended {why}: {[b[:4] for b in s.describe_blocked()]}"))
        return v

    def summary(self, s, ctx, why):
        PS = ctx["peer"]
        return (why, PS["rp_at"] is not None, PS["abort"], PS["final"], PS["stores"] + len(ctx.get("dest_stores", ())))


def scenarios(quick):
    out = []
    for op in ("find", "get", "move"):
        for n in range(0, 4):
            pts = [("idle",), ("after",), ("with-request", "one-segment"), ("with-request", "two-segments")] + [("yield", k) for k in range(n + 1) if not (op in ("get", "move") and n == 0)]
            if op == "get":
                pts += [("substore", k) for k in range(n)]
            for p in pts:
                out.append(ReleaseDuring(op, n, p))
            # a sub-operation whose instance cannot be encoded (the C-STORE fails locally), release afterwards
            if op in ("get", "move") and n in (1, 2):
                for bad in range(n):
                    for p in (("after",), ("yield", n)):
                        out.append(ReleaseDuring(op, n, p, bad=bad))
    return out


def run(ctx: core.Ctx) -> core.Result:
    scns = scenarios(ctx.quick)
    D = ctx.pick(0, 1)
    res = explore.explore_family(scns, D=D, seed=ctx.seed)
    deep = []
    if ctx.quick:
        deep = [s for s in scns if (s.op, s.n) in (("find", 2), ("get", 2), ("move", 2)) and s.point[0] in ("yield", "substore", "idle", "with-request")]
        res2 = explore.explore_family(deep, D=1, seed=ctx.seed)
    else:
        res2 = []
    viol, seen = [], set()
    tot = {"executions": 0, "steps": 0, "decisions": 0}
    outcomes = set()
    for scn, r in list(zip(scns, res)) + list(zip(deep, res2)):
        for k in tot:
            tot[k] += r["stats"].get(k, 0)
        outcomes |= {(scn.name, k) for k in r["summaries"]}
        for k, (what, pfx) in r["viols"].items():
            if k not in seen:
                seen.add(k)
                viol.append(core.Violation(k, what, {"op": scn.op, "n": scn.n, "point": list(scn.point), "bad": scn.bad, "choices": pfx}))
    cov = {
        "states": tot["steps"],
        "transitions": tot["decisions"],
        "traces_validated_against_impl": tot["executions"],
        "arrival_points": len(scns),
        "deviation_bound_all": D,
        "deviation_bound_subset": 1,
        "distinct_outcomes": len(outcomes),
        "samples": [{"scenario": scns[i].name} for i in ctx.sample_indices(len(scns), 5)],
        "explanation": "each execution runs the real acceptor threads against a byte-level raw peer; the handler is held inside the real service-class loop until the release request has been received by the local provider",
    }
    return core.Result("model_checking", cov, viol, assumptions=["handlers do no work of their own, so any delay beyond 0.5 s of virtual time is waiting inside pynetdicom", "same trusted base as C05/C06"])


def replay(ctx, data):
    scn = ReleaseDuring(data["op"], data["n"], tuple(data["point"]), data.get("bad"))
    r = explore.execute(scn, tuple(data["choices"]), want_obs=True)
    for o in r["obs"]:
        if o[0] == "evt" and o[3] in ("EVT_DATA_SENT", "EVT_DATA_RECV"):
            continue
        print(o)
    print(r["why"], r["summary"])
    for k, w in r["viol"]:
        print("VIOLATED:", k, w)
    return 1 if r["viol"] else 0
