"""C23 - a C-CANCEL reaches exactly the operation it names.

A byte-level raw peer runs two consecutive C-FIND / C-GET operations (message
IDs equal or different) against a real acceptor whose handler polls
event.is_cancelled before each of its n yields, and sends C-CANCEL requests
with the ID of the running operation, of the other operation or of neither at
every position: before the first request (idle), at every poll of each
operation (the handler is held until the cancel has been taken in by the
local DIMSE provider), between the operations (idle) and after the second;
plus 0..12 stale cancels queued while idle.  Every schedule with at most D
deviations.
"""
from __future__ import annotations

from vk import core, dimsepeer as dp, explore, scen, sim, monitors as M
from vk.explore import Scenario

IVRLE = scen.IVRLE


class CancelAt(Scenario):
    max_steps = 80000
    max_time = 40.0

    def __init__(self, op, n, ids, cancel_id, point, flood=0):
        """ids: (id of op 1, id of op 2); point: ('idle', 0|1|2) before op1 / between / after op2, or ('poll', which_op, k)"""
        self.op, self.n, self.ids, self.cancel_id, self.point, self.flood = op, n, ids, cancel_id, point, flood
        self.name = f"cancel[{op},n={n},ids={ids[0]}/{ids[1]},cancel={cancel_id},{'-'.join(map(str, point))}{',flood=' + str(flood) if flood else ''}]"

    def build(self, s):
        from pydicom.dataset import Dataset, FileMetaDataset
        from pynetdicom import evt

        op, n = self.op, self.n
        ctx = {"polls": [], "acc_assocs": [], "peer": {"finals": [], "log": []}, "flags": {"want_cancel": False, "cancel_sent": 0}}
        rec = scen.Recorder(s, "loc", ["EVT_DIMSE_RECV", "EVT_PDU_RECV", "EVT_ABORTED", "EVT_RELEASED"])
        ctx["rec"] = rec
        ae = scen.make_ae("ACC")
        ae.add_supported_context(dp.FIND)
        ae.add_supported_context(dp.GET)
        ae.add_supported_context(dp.CT, scu_role=True, scp_role=True)
        flags = ctx["flags"]
        state = {"opno": 0}

        def cancels_taken():
            return sum(1 for x in rec.log if x[2] == "EVT_DIMSE_RECV" and x[3] == "C_CANCEL_RQ")

        def mk():
            ds = Dataset()
            ds.PatientID = "1"
            ds.SOPClassUID = dp.CT
            ds.SOPInstanceUID = "1.2.3"
            ds.QueryRetrieveLevel = "PATIENT"
            ds.file_meta = FileMetaDataset()
            ds.file_meta.TransferSyntaxUID = IVRLE
            return ds

        def body(event):
            state["opno"] += 1
            me = state["opno"]
            for k in range(n + 1):
                if self.point == ("poll", me, k):
                    before = cancels_taken()
                    flags["want_cancel"] = True
                    s.block("handler.wait", "cancel", lambda: cancels_taken() > before, 10.0)
                c = event.is_cancelled
                ctx["polls"].append((me, k, bool(c)))
                if c:
                    yield 0xFE00, None
                    return
                if k < n:
                    yield 0xFF00, mk()

        def on_find(event):
            yield from body(event)

        def on_get(event):
            yield n
            yield from body(event)

        handlers = list(rec.handlers()) + [(evt.EVT_C_FIND, on_find), (evt.EVT_C_GET, on_get), (evt.EVT_ESTABLISHED, lambda e: ctx["acc_assocs"].append(e.assoc))]
        scen.start_server(s, ae, handlers, max_requests=1)
        PS = ctx["peer"]
        cxid = 1 if op == "find" else 3

        def peer_main():
            so = sim.SimSocket()
            so.connect(("127.0.0.1", scen.PORT))
            so.send(dp.assoc_rq([(1, dp.FIND, [IVRLE]), (3, dp.GET, [IVRLE]), (5, dp.CT, [IVRLE])], roles=[(dp.CT, 0, 1)]))
            rd = dp.MessageReader()
            seen_msgs = seen_pdus = 0
            st = {"phase": "assoc", "sent_ops": 0}

            def send_cancel(tag):
                so.send(dp.cancel_rq(cxid, self.cancel_id))
                flags["cancel_sent"] += 1
                PS["log"].append(("cancel", tag))

            def wait_taken(nwant):
                s.block("peer.wait-taken", "peer", lambda: cancels_taken() >= nwant, 5.0)

            def send_op():
                i = st["sent_ops"]
                st["sent_ops"] += 1
                mid = self.ids[i]
                so.send(dp.find_rq(1, mid) if op == "find" else dp.get_rq(3, mid))

            def idle_point(which):
                if self.point == ("idle", which):
                    base = cancels_taken()
                    for j in range(self.flood):
                        so.send(dp.cancel_rq(cxid, 100 + j))
                    send_cancel(f"idle{which}")
                    wait_taken(base + self.flood + 1 if self.flood < 10 else base + 1)

            t_end = s.now + 30.0
            while s.now < t_end:
                if flags["want_cancel"]:
                    flags["want_cancel"] = False
                    send_cancel("poll")
                if not so.readable():
                    ok = s.block("peer.wait", "peer", lambda: so.readable() or flags["want_cancel"], 12.0)
                    if not ok:
                        PS["log"].append("peer-timeout")
                        break
                    continue
                try:
                    d = so.recv(65536)
                except OSError:
                    d = b""
                if not d:
                    PS["log"].append("eof")
                    break
                rd.feed(d)
                done = False
                for t, body_ in rd.pdus[seen_pdus:]:
                    if t == 2 and st["phase"] == "assoc":
                        st["phase"] = "op1"
                        idle_point(0)
                        send_op()
                    elif t in (6, 7):
                        done = True
                seen_pdus = len(rd.pdus)
                for m in rd.msgs[seen_msgs:]:
                    if m["field"] == dp.C_STORE_RQ:
                        so.send(dp.store_rsp(m["cx"], m["msg_id"]))
                    elif m["field"] in (dp.C_FIND_RSP, dp.C_GET_RSP) and m["status"] not in (0xFF00, 0xFF01):
                        PS["finals"].append(m["status"])
                        if st["phase"] == "op1":
                            st["phase"] = "op2"
                            idle_point(1)
                            send_op()
                        elif st["phase"] == "op2":
                            st["phase"] = "done"
                            idle_point(2)
                            so.send(dp.P.RELEASE_RQ)
                seen_msgs = len(rd.msgs)
                if done:
                    break
            so.close()

        s.spawn(peer_main, "peer")
        return ctx

    def check(self, s, ctx, why):
        v = []
        tag = self.name
        for th, k, msg in M.thread_exceptions(s):
            v.append((f"{tag}:uncaught-{k}-in-{th}", f"{tag}: uncaught exception in {th}: {msg}"))
        if why != "terminated":
            v.append((f"{tag}:not-terminated-{why}", f"{tag}: ended {why}"))
        if ctx["flags"]["cancel_sent"] == 0:
            v.append((f"{tag}:vacuous", f"{tag}: no cancel was sent ({ctx['peer']['log']}, polls {ctx['polls']})"))
            return v
        polls = ctx["polls"]
        # expected: True exactly at the held poll of the named operation when the IDs match
        want_true = None
        if self.point[0] == "poll":
            _, which, k = self.point
            if self.cancel_id == self.ids[which - 1]:
                want_true = (which, k)
        for me, k, c in polls:
            if c and (me, k) != want_true:
                why_ = "a different message ID" if self.cancel_id != self.ids[me - 1] else ("a cancel that arrived before this operation started" if self.point[0] == "idle" or self.point[1] != me else "an earlier poll")
                v.append((f"{tag}:spurious-cancel-op{me}", f"{tag}: operation {me} (ID {self.ids[me - 1]}) saw is_cancelled=True at poll {k} for {why_}; polls {polls}"))
        if want_true is not None and not any(c and (me, k) == want_true for me, k, c in polls):
            v.append((f"{tag}:cancel-missed", f"{tag}: the cancel for the running operation was not seen at its next poll; polls {polls}"))
        if len(ctx["peer"]["finals"]) != 2:
            v.append((f"{tag}:finals-{len(ctx['peer']['finals'])}", f"{tag}: peer received {len(ctx['peer']['finals'])} final responses for 2 operations ({ctx['peer']['log']})"))
        return v

    def summary(self, s, ctx, why):
        return (why, tuple(ctx["polls"]), tuple(ctx["peer"]["finals"]))


def scenarios(quick):
    out = []
    for op in ("find", "get"):
        for n in ((1, 2) if quick else (0, 1, 2, 3)):
            for ids in ((1, 2), (7, 7), (0, 65535), (65535, 0)):
                # a C-GET that announces 0 sub-operations never runs the handler body: it has no poll points
                points = [("idle", 0), ("idle", 1), ("idle", 2)] + [("poll", w, k) for w in (1, 2) for k in range(n + 1) if not (op == "get" and n == 0)]
                for p in points:
                    for cid in sorted({ids[0], ids[1], 9}):
                        out.append(CancelAt(op, n, ids, cid, p))
    for fl in (9, 10, 12):
        out.append(CancelAt("find", 1, (1, 2), 1, ("idle", 0), flood=fl))
        out.append(CancelAt("find", 1, (1, 2), 2, ("idle", 1), flood=fl))
    return out


def run(ctx: core.Ctx) -> core.Result:
    scns = scenarios(ctx.quick)
    res = explore.explore_family(scns, D=0, seed=ctx.seed)
    # one deviation: quick for the C-FIND n=1 family, thorough for every arrival scenario
    deep = [x for x in scns if not x.flood and (not ctx.quick or (x.op == "find" and x.n == 1))]
    res2 = explore.explore_family(deep, D=1, seed=ctx.seed)
    viol, seen = [], set()
    tot = {"executions": 0, "steps": 0, "decisions": 0}
    outcomes = set()
    for scn, r in list(zip(scns, res)) + list(zip(deep, res2)):
        for k in tot:
            tot[k] += r["stats"].get(k, 0)
        outcomes |= {(scn.name, k) for k in r["summaries"]}
        for k, (t, pfx) in r["viols"].items():
            if k not in seen:
                seen.add(k)
                viol.append(core.Violation(k, t, {"op": scn.op, "n": scn.n, "ids": list(scn.ids), "cancel_id": scn.cancel_id, "point": list(scn.point), "flood": scn.flood, "choices": pfx}))
    cov = {
        "states": tot["steps"],
        "transitions": tot["decisions"],
        "traces_validated_against_impl": tot["executions"],
        "arrival_scenarios": len(scns),
        "deviation_bound_subset": 1,
        "distinct_outcomes": len(outcomes),
        "samples": [{"scenario": scns[i].name} for i in ctx.sample_indices(len(scns), 5)],
        "explanation": "each execution runs the real acceptor threads (provider thread taking in C-CANCEL, reactor + service class polling it) against a byte-level raw peer",
    }
    return core.Result("model_checking", cov, viol, assumptions=["a cancel counts as arrived once EVT_DIMSE_RECV fired for it on the acceptor", "same trusted base as C05/C06"])


def replay(ctx, data):
    scn = CancelAt(data["op"], data["n"], tuple(data["ids"]), data["cancel_id"], tuple(data["point"]), data.get("flood", 0))
    r = explore.execute(scn, tuple(data["choices"]))
    print(r["why"], r["summary"])
    for k, w in r["viol"]:
        print("VIOLATED:", k, w)
    return 1 if r["viol"] else 0
