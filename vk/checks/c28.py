"""C28 - every status code has one category; tables agree; SCU/SCP finality
follows the category.

Enumerated completely: all 65536 codes through code_to_category; every entry
of every status table in pynetdicom.status; every code through the real SCU
response iterators (C-FIND normal + RepositoryQuery, C-GET, C-MOVE) and
through the real C-FIND / C-GET / C-MOVE SCP loops as a handler-yielded status.
"""
from __future__ import annotations

from io import BytesIO

from vk import core
from vk.ref import status as ref

CATS = {ref.SUCCESS, ref.WARNING, ref.FAILURE, ref.CANCEL, ref.PENDING, ref.UNKNOWN}

FIND_MODEL = "1.2.840.10008.5.1.4.1.2.1.1"
GET_MODEL = "1.2.840.10008.5.1.4.1.2.1.3"
MOVE_MODEL = "1.2.840.10008.5.1.4.1.2.1.2"
IVRLE = "1.2.840.10008.1.2"
CT = "1.2.840.10008.5.1.4.1.1.2"


def _tables():
    import pynetdicom.status as st

    out = {}
    for name in sorted(dir(st)):
        v = getattr(st, name)
        if name.isupper() and isinstance(v, dict) and v and all(isinstance(k, int) for k in v):
            if all(isinstance(x, tuple) and len(x) == 2 for x in v.values()):
                out[name] = v
    return out


def _enc_ds():
    from pydicom.dataset import Dataset
    from pynetdicom.dsutils import encode

    ds = Dataset()
    ds.PatientID = "1"
    ds.SOPClassUID = CT
    ds.SOPInstanceUID = "1.2.3"
    return ds, encode(ds, True, True)


# ---- SCU side -------------------------------------------------------------


def _scu_case(kind: str, code: int):
    """Feed [rsp(code), rsp(Success)] to the real iterator; return number of
    items yielded and number of get_msg calls (finality decision)."""
    from pydicom.uid import UID
    from pynetdicom.dimse_primitives import C_FIND, C_GET, C_MOVE
    from pynetdicom.sop_class import RepositoryQuery
    from vk import stubs

    assoc = stubs.make_assoc("requestor")
    _, enc = _enc_ds()

    def mk(status):
        cls = {"find": C_FIND, "findrepo": C_FIND, "get": C_GET, "move": C_MOVE}[kind]
        r = cls()
        r.MessageIDBeingRespondedTo = 1
        r.Status = status
        if cls is C_FIND and status in (0xFF00, 0xFF01):
            r.Identifier = BytesIO(enc)
        return r

    assoc.dimse.script = [(1, mk(code)), (1, mk(0x0000))]
    ts = UID(IVRLE)
    if kind == "find":
        gen = assoc._wrap_find_responses(ts, UID(FIND_MODEL))
    elif kind == "findrepo":
        gen = assoc._wrap_find_responses(ts, RepositoryQuery)
    else:
        gen = assoc._wrap_get_move_responses(ts)
    out = [int(st.Status) if "Status" in st else None for st, _ in gen]
    return out


def _scu_chunk(lo, hi):
    bad = []
    n = 0
    for code in range(lo, hi):
        for kind in ("find", "findrepo", "get", "move"):
            n += 1
            out = _scu_case(kind, code)
            final = ref.is_final(code)
            if kind == "findrepo" and code == 0xB001:
                final = False
            want = [code] if final else [code, 0]
            if out != want:
                bad.append((kind, code, out, want))
    return n, bad


# ---- SCP side -------------------------------------------------------------


def _scp_case(kind: str, code: int, model: str | None = None):
    """Handler yields (code, ds) then (Pending, ds).  Returns statuses sent."""
    from pynetdicom import evt
    from pynetdicom.dimse_primitives import C_FIND, C_GET, C_MOVE
    from pynetdicom.presentation import build_context
    from pynetdicom.service_class import QueryRetrieveServiceClass
    from vk import stubs
    from pydicom.dataset import Dataset

    ds, enc = _enc_ds()
    assoc = stubs.make_assoc("acceptor", contexts=[(1, model or FIND_MODEL, IVRLE, False, True), (3, CT, IVRLE, True, True)])

    class OK:
        Status = 0

    assoc.send_c_store = lambda dataset, msg_id=1, **kw: OK()  # sub-operations succeed
    if kind == "find":
        req = C_FIND()
        uid = model or FIND_MODEL

        def handler(event):
            yield code, ds
            yield 0xFF00, ds

        assoc.bind(evt.EVT_C_FIND, handler)
    elif kind == "get":
        req = C_GET()
        uid = GET_MODEL

        def handler(event):
            yield 3
            yield code, ds
            yield 0xFF00, ds

        assoc.bind(evt.EVT_C_GET, handler)
    else:
        req = C_MOVE()
        uid = MOVE_MODEL
        req.MoveDestination = "DEST"

        class FakeStoreAssoc:
            is_established = True

            def send_c_store(self, dataset, msg_id=1, **kw):
                return OK()

            def release(self):
                pass

        assoc.ae.associate = lambda *a, **kw: FakeStoreAssoc()

        def handler(event):
            yield ("127.0.0.1", 11112)
            yield 3
            yield code, ds
            yield 0xFF00, ds

        assoc.bind(evt.EVT_C_MOVE, handler)
    req.MessageID = 7
    req.AffectedSOPClassUID = uid
    req.Priority = 2
    req.Identifier = BytesIO(enc)
    cx = build_context(uid, IVRLE)
    cx.context_id = 1
    svc = QueryRetrieveServiceClass(assoc)
    svc.SCP(req, cx)
    return [s["Status"] for _, s in assoc.dimse.sent]


def _scp_chunk(lo, hi):
    bad = []
    n = 0
    for code in range(lo, hi):
        for kind in ("find", "get", "move"):
            n += 1
            try:
                out = _scp_case(kind, code)
            except Exception as e:  # an exception escaping SCP() is a failure of finality too
                bad.append((kind, code, f"exception {type(e).__name__}: {e}", None))
                continue
            # what matters: is anything sent after the response that carries
            # a non-Pending status derived from `code`?
            final = ref.is_final(code)
            if kind == "find" and code == 0xB001:
                final = False  # documented non-final warning (C20)
            if not out:
                bad.append((kind, code, out, "no response"))
                continue
            first = out[0]
            if final:
                ok = len(out) == 1 and ref.is_final(first)
            else:
                # pending: continues; last must be final, all before non-final
                ok = len(out) >= 2 and ref.is_final(out[-1]) and all((not ref.is_final(s)) or (kind == "find" and s == 0xB001) for s in out[:-1])
            if not ok:
                bad.append((kind, code, out, "final" if final else "non-final"))
    return n, bad


def run(ctx: core.Ctx) -> core.Result:
    from pynetdicom.status import code_to_category

    viol = []
    # A. all codes
    cats = {}
    for code in range(0x10000):
        got = code_to_category(code)
        cats[code] = got
        if got not in CATS:
            viol.append(core.Violation(f"cat-invalid-{code:04X}", f"code_to_category(0x{code:04X}) = {got!r} is not a category", {"code": code}))
        elif got != ref.category(code):
            viol.append(core.Violation(f"cat-{code:04X}", f"code_to_category(0x{code:04X}) = {got}, PS3.7 Annex C says {ref.category(code)}", {"code": code}))
    # B. tables
    tables = _tables()
    n_entries = 0
    for name, tb in tables.items():
        for code, (cat, _) in tb.items():
            n_entries += 1
            if cat != ref.category(code) or cat != cats.get(code):
                viol.append(core.Violation(f"table-{name}-{code:04X}", f"{name}[0x{code:04X}] is {cat}, general category {ref.category(code)} (code_to_category: {cats.get(code)})", {"table": name, "code": code}))
    # C/D. SCU + SCP finality over all codes
    if False:
        # all table codes + every boundary of every category range +- 1, plus a stride
        codes = set()
        for tb in tables.values():
            codes.update(tb)
        for b in (0, 1, 0x105, 0x107, 0x116, 0x124, 0x210, 0x213, 0xA000, 0xAFFF, 0xB000, 0xB001, 0xBFFF, 0xC000, 0xCFFF, 0xD000, 0xFE00, 0xFF00, 0xFF01, 0xFF02, 0xFFFF):
            codes.update(c for c in (b - 1, b, b + 1) if 0 <= c <= 0xFFFF)
        codes.update(range(0, 0x10000, 0x40))
        codes = sorted(codes)
        ranges = [codes[i::core.NPROC] for i in range(core.NPROC)]
        scu = core.pmap(_scu_list, [(r,) for r in ranges], seed=ctx.seed)
        scp = core.pmap(_scp_list, [(r,) for r in ranges], seed=ctx.seed)
        n_codes = len(codes)
    else:
        ch = core.chunks(0x10000, core.NPROC * 4)
        scu = core.pmap(_scu_chunk, ch, seed=ctx.seed)
        scp = core.pmap(_scp_chunk, ch, seed=ctx.seed)
        n_codes = 0x10000
    n_scu = sum(n for n, _ in scu)
    n_scp = sum(n for n, _ in scp)
    for _, bad in scu:
        for kind, code, out, want in bad:
            viol.append(core.Violation(f"scu-{kind}-{code:04X}", f"SCU {kind}: peer status 0x{code:04X} ({ref.category(code)}) then Success -> yielded {out}, expected {want}", {"side": "scu", "kind": kind, "code": code}))
    for _, bad in scp:
        for kind, code, out, want in bad:
            viol.append(core.Violation(f"scp-{kind}-{code:04X}", f"SCP {kind}: handler status 0x{code:04X} ({ref.category(code)}) then Pending -> sent {out}, expected {want}", {"side": "scp", "kind": kind, "code": code}))
    distinct_cat = len(set(cats.values()))
    cov = {
        "evaluations": 0x10000 + n_entries + n_scu + n_scp,
        "distinct_nontrivial": len([c for c in cats if cats[c] != ref.UNKNOWN]) + n_entries,
        "rule": "all 65536 codes through code_to_category; every (table, code) entry of every status table; "
        + ("all 65536" if True else f"{n_codes} (all table codes, all category range boundaries +-1, stride 0x40)")
        + " codes through the real SCU iterators (find, find/RepositoryQuery, get, move) and real C-FIND/GET/MOVE SCP loops. "
        "non-trivial = codes whose category is not Unknown + table entries",
        "exhaustive": True,
        "codes_all": 0x10000,
        "tables": len(tables),
        "table_entries": n_entries,
        "scu_runs": n_scu,
        "scp_runs": n_scp,
        "distinct_categories_seen": distinct_cat,
        "samples": [
            {"code": "0xB001", "category": cats[0xB001], "scu_find": _scu_case("find", 0xB001), "scu_findrepo": _scu_case("findrepo", 0xB001), "scp_find": _scp_case("find", 0xB001)},
            {"code": "0xFF01", "scu_get": _scu_case("get", 0xFF01), "scp_get": _scp_case("get", 0xFF01)},
            {"code": "0xA702", "scp_move": _scp_case("move", 0xA702)},
        ],
    }
    return core.Result("exploration", cov, viol, assumptions=["reference categorisation transcribed from PS3.7 Annex C ranges (vk/ref/status.py)", "SCP finality observed with stubbed C-STORE sub-operations that always succeed"])


def _scu_list(codes):
    n, bad = 0, []
    for c in codes:
        a, b = _scu_chunk(c, c + 1)
        n += a
        bad += b
    return n, bad


def _scp_list(codes):
    n, bad = 0, []
    for c in codes:
        a, b = _scp_chunk(c, c + 1)
        n += a
        bad += b
    return n, bad


def replay(ctx, data):
    print("replay", data)
    if data.get("side") == "scu":
        print(_scu_case(data["kind"], data["code"]))
    elif data.get("side") == "scp":
        print(_scp_case(data["kind"], data["code"]))
    else:
        from pynetdicom.status import code_to_category

        print(code_to_category(data["code"]), ref.category(data["code"]))
    return 0
