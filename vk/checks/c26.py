"""C26 - a failing notification handler never changes the protocol exchange.

Differential model checking: for every life-cycle scenario, every schedule
with at most D deviations is executed twice on the real code under the SAME
recorded schedule - once with well-behaved notification handlers, once with
a raising handler bound to a notification event (each of the 17 events
alone and all events at once).  Wire transcript (every PDU byte, both directions) and the outcome of
both sides must be identical.  Intervention handlers that raise must yield the
documented failure status / rejection and never an uncaught exception.
"""
from __future__ import annotations

import collections

from vk import core, explore, lifecycle, scen, sim, monitors as M

NOTIF = scen.Recorder.NOTIF
FLAVOURS = ["empty", "assert", "multiline", "non-ascii", "str-raises"]


class DiffLifecycle(lifecycle.Lifecycle):
    def __init__(self, req, acc, raising=None, nth=None):
        super().__init__(req, acc, raising=None, monitors=[])
        self.raise_events = raising or []
        self.nth = nth
        self.name = f"lifecycle[{req}|{acc}]"

    def build(self, s):
        ctx = super().build(s)
        return ctx

    def summary(self, s, ctx, why):
        a = ctx["res"].get("assoc")
        ro = scen.assoc_outcome(a) if a is not None else None
        ao = scen.assoc_outcome(ctx["acc_assocs"][0]) if ctx["acc_assocs"] else None
        w = scen.wire(s, 0) if s.net.conns else {"c": {"raw": b""}, "s": {"raw": b""}}
        exc = tuple((th, kind) for th, kind, _ in M.thread_exceptions(s))
        term_r = tuple(x[2] for x in ctx["rr"].log if x[2] in M.TERMINAL_EVT.values())
        term_a = tuple(x[2] for x in ctx["ra"].log if x[2] in M.TERMINAL_EVT.values())
        return (why, _o(ro), _o(ao), w["c"]["raw"], w["s"]["raw"], exc, term_r, term_a, ctx["res"].get("echo"))


def _o(o):
    return None if o is None else tuple(sorted(o.items()))


def _mk(req, acc, raising, nth):
    """Scenario with raising handlers bound FIRST (so recorders still see the
    event) on both sides."""
    scn = DiffLifecycle(req, acc)
    if raising:
        scn.raising = list(raising)
        scn.nth = nth
        scn.exc_flavour = nth  # None (an ordinary exception with a message) or the kind of exception raised
    return scn


def _pair(req, acc, raising, nth, prefix):
    # the reference run binds the same handlers, which return normally - so
    # both runs have identical scheduling points up to the first behavioural
    # difference
    ref = _mk(req, acc, raising, nth)
    ref.raising_disabled = True
    base = explore.execute(ref, prefix)
    mut = None
    try:
        mut = explore.execute(_mk(req, acc, raising, nth), prefix)
    except sim.ReplayDivergence as e:
        return base, None, f"schedule diverged: {e}"
    if [(n, c) for n, c, _ in mut["trace"]][: len(prefix)] != [(n, c) for n, c, _ in base["trace"]][: len(prefix)]:
        return base, mut, "decision shapes differ along the replayed prefix"
    return base, mut, None


FIELDS = ["end", "requestor outcome", "acceptor outcome", "bytes requestor->acceptor", "bytes acceptor->requestor", "uncaught exceptions", "requestor terminal events", "acceptor terminal events", "echo status"]


def _compare(base, mut, div):
    if div:
        return [("diverged", div)]
    out = []
    for i, (a, b) in enumerate(zip(base["summary"], mut["summary"])):
        if a != b:
            fa, fb = (a, b) if not isinstance(a, bytes) else (f"{len(a)} bytes {a[:12].hex()}..", f"{len(b)} bytes {b[:12].hex()}..")
            out.append((FIELDS[i].replace(" ", "-"), f"{FIELDS[i]}: {fa!r} without raising handler, {fb!r} with"))
    return out


def _work(items, D):
    """items: (req, acc, raising tuple, nth).  Explore prefixes up to D
    deviations, comparing pairwise."""
    viols = {}
    stats = collections.Counter()
    for req, acc, raising, nth in items:
        stack = [((), D)]
        while stack:
            pfx, left = stack.pop()
            base, mut, div = _pair(req, acc, raising, nth, pfx)
            stats["pairs"] += 1
            stats["steps"] += base["steps"] + (mut["steps"] if mut else 0)
            stats["decisions"] += len(base["trace"])
            for sym, what in _compare(base, mut, div):
                tag = "ALL" if len(raising) > 3 else "+".join(raising)
                key = f"lifecycle[{req}|{acc}]:raise-{tag}{'@' + str(nth) if nth else ''}:{sym}"
                viols.setdefault(key, (f"lifecycle[{req}|{acc}] with raising handler for {tag}: {what}", {"req": req, "acc": acc, "raising": list(raising), "nth": nth, "choices": list(pfx)}))
            if left > 0:
                for alt in explore._alternatives(base["trace"], len(pfx), left):
                    stack.append((alt, left - 1))
    return dict(stats), viols


# ---- intervention handlers ------------------------------------------------


class Intervention(explore.Scenario):
    """Requestor performs one operation; the acceptor's intervention handler
    raises."""

    max_steps = 40000
    max_time = 60.0

    def __init__(self, op):
        self.op = op
        self.name = f"intervention[{op}]"

    def build(self, s):
        from pydicom.dataset import Dataset
        from pynetdicom import evt, build_role
        from pynetdicom.pdu_primitives import UserIdentityNegotiation, AsynchronousOperationsWindowNegotiation, SOPClassExtendedNegotiation, SOPClassCommonExtendedNegotiation
        from pynetdicom.sop_class import PatientRootQueryRetrieveInformationModelFind as FIND, CTImageStorage, ModalityPerformedProcedureStep as MPPS

        acc = scen.make_ae("ACC")
        for sop in (scen.VERIFICATION, CTImageStorage, FIND, MPPS):
            acc.add_supported_context(sop)
        rq = scen.make_ae("REQ")
        for sop in (scen.VERIFICATION, CTImageStorage, FIND, MPPS):
            rq.add_requested_context(sop)
        ctx = {"res": {}, "acc_assocs": []}

        def boom(event):
            raise ValueError("intervention handler failure")

        evmap = {"echo": evt.EVT_C_ECHO, "store": evt.EVT_C_STORE, "find": evt.EVT_C_FIND, "n-get": evt.EVT_N_GET, "n-create": evt.EVT_N_CREATE, "user-id": evt.EVT_USER_ID, "async": evt.EVT_ASYNC_OPS, "sop-ext": evt.EVT_SOP_EXTENDED, "sop-common": evt.EVT_SOP_COMMON}
        handlers = [(evmap[self.op], boom)]
        scen.start_server(s, acc, handlers, max_requests=1)
        ext = []
        if self.op == "user-id":
            u = UserIdentityNegotiation()
            u.user_identity_type = 1
            u.primary_field = b"user"
            ext.append(u)
        if self.op == "async":
            a_ = AsynchronousOperationsWindowNegotiation()
            a_.maximum_number_operations_invoked = 2
            a_.maximum_number_operations_performed = 2
            ext.append(a_)
        if self.op == "sop-ext":
            e_ = SOPClassExtendedNegotiation()
            e_.sop_class_uid = CTImageStorage
            e_.service_class_application_information = b"\x01\x00"
            ext.append(e_)
        if self.op == "sop-common":
            c_ = SOPClassCommonExtendedNegotiation()
            c_.sop_class_uid = CTImageStorage
            c_.service_class_uid = "1.2.840.10008.4.2"
            ext.append(c_)
        res = ctx["res"]

        def user():
            a = rq.associate("127.0.0.1", scen.PORT, ext_neg=ext)
            res["assoc"] = a
            res["established"] = a.is_established
            res["rejected"] = a.is_rejected
            if not a.is_established:
                return
            ds = Dataset()
            ds.PatientID = "1"
            ds.SOPClassUID = CTImageStorage
            ds.SOPInstanceUID = "1.2.3"
            ds.QueryRetrieveLevel = "PATIENT"
            st = None
            if self.op == "echo":
                st = a.send_c_echo()
            elif self.op == "store":
                from pydicom.dataset import FileMetaDataset

                ds.file_meta = FileMetaDataset()
                ds.file_meta.TransferSyntaxUID = scen.IVRLE
                st = a.send_c_store(ds)
            elif self.op == "find":
                st = [x for x, _ in a.send_c_find(ds, FIND)][-1]
            elif self.op == "n-get":
                st, _ = a.send_n_get([(0x0010, 0x0010)], MPPS, "1.2.3")
            elif self.op == "n-create":
                st, _ = a.send_n_create(ds, MPPS, "1.2.3")
            res["status"] = None if st is None or "Status" not in st else int(st.Status)
            res["still_established"] = a.is_established
            a.release()
            res["released"] = a.is_released

        s.spawn(user, "user")
        return ctx

    EXPECT = {"echo": 0x0000, "store": 0xC211, "find": 0xC311, "n-get": 0x0110, "n-create": 0x0110}

    def check(self, s, ctx, why):
        v = []
        res = ctx["res"]
        for th, kind, msg in M.thread_exceptions(s):
            v.append((f"{self.name}:uncaught-{kind}-in-{th}", f"{self.name}: exception escaped into thread {th}: {msg}"))
        if why != "terminated":
            v.append((f"{self.name}:not-terminated-{why}", f"{self.name}: ended {why}"))
            return v
        if self.op == "user-id":
            if not res.get("rejected"):
                v.append((f"{self.name}:not-rejected", f"{self.name}: identity handler raised but the association was not rejected: {res}"))
        elif self.op in ("async", "sop-ext", "sop-common"):
            if not res.get("established") or not res.get("released"):
                v.append((f"{self.name}:negotiation-broken", f"{self.name}: negotiation handler raised and the association did not proceed normally: {res}"))
        else:
            if res.get("status") != self.EXPECT[self.op]:
                v.append((f"{self.name}:status-{res.get('status')}", f"{self.name}: handler raised, response status {res.get('status')!r}, documented 0x{self.EXPECT[self.op]:04X}"))
            if not res.get("released"):
                v.append((f"{self.name}:not-released", f"{self.name}: association did not continue to a normal release: {res}"))
        return v

    def summary(self, s, ctx, why):
        r = ctx["res"]
        return (why, r.get("status"), r.get("established"), r.get("released"))


def run(ctx: core.Ctx) -> core.Result:
    D = ctx.pick(0, 1)
    items = []
    pairs = [(rq, ac) for rq in lifecycle.REQ_SCRIPTS for ac in lifecycle.ACC_SCRIPTS]
    for rq, ac in pairs:
        for ev in NOTIF:
            items.append((rq, ac, (ev,), None))
        items.append((rq, ac, tuple(NOTIF), None))
    # what is raised: exceptions without text, with multi-line / non-ASCII / format-like text, failed
    # asserts and exceptions whose text cannot even be produced - for every event alone and all at once
    # (default schedule in both tiers: what is raised does not interact with the schedule; with <= 1
    # deviation the thorough tier would need six times its hour)
    flav_items = []
    flav_pairs = [("echo-release", "none"), ("release", "release"), ("echo-abort", "abort")] if ctx.quick else pairs
    for rq, ac in flav_pairs:
        for fl in FLAVOURS:
            for ev in NOTIF:
                flav_items.append((rq, ac, (ev,), fl))
            flav_items.append((rq, ac, tuple(NOTIF), fl))
    # D=1 exploration with everything raising on a subset (quick) / all (thorough)
    deep_pairs = [("release", "none"), ("echo-release", "none"), ("abort", "none"), ("release", "release"), ("echo-abort", "abort")] if ctx.quick else pairs
    n = core.NPROC * 4
    parts = [items[i::n] for i in range(n)]
    res = core.pmap(_work, [(p, D) for p in parts if p], seed=ctx.seed)
    res += core.pmap(_work, [(p, 0) for p in [flav_items[i::n] for i in range(n)] if p], seed=ctx.seed)
    items = items + flav_items
    deep = [(rq, ac, tuple(NOTIF), None) for rq, ac in deep_pairs]
    parts2 = [deep[i::n] for i in range(n)]
    res += core.pmap(_work, [(p, 1) for p in parts2 if p], seed=ctx.seed)
    viol = []
    stats = collections.Counter()
    seen = set()
    for st, vi in res:
        stats.update(st)
        for k, (what, rp) in vi.items():
            if k not in seen:
                seen.add(k)
                viol.append(core.Violation(k, what, dict(rp, kind="diff")))
    # interventions: all schedules with <= 1 deviation
    iscn = [Intervention(op) for op in ("echo", "store", "find", "n-get", "n-create", "user-id", "async", "sop-ext", "sop-common")]
    ires = explore.explore_family(iscn, D=ctx.pick(0, 1), seed=ctx.seed)
    iexec = 0
    isamples = []
    for scn, r in zip(iscn, ires):
        iexec += r["stats"]["executions"]
        stats["steps"] += r["stats"]["steps"]
        stats["decisions"] += r["stats"]["decisions"]
        for k, (what, pfx) in r["viols"].items():
            viol.append(core.Violation(k, what, {"kind": "intervention", "op": scn.op, "choices": pfx}))
        isamples.append({"scenario": scn.name, "outcomes": [list(map(str, k)) for k in r["summaries"]]})
    cov = {
        "states": stats["steps"],
        "transitions": stats["decisions"],
        "traces_validated_against_impl": stats["pairs"] * 2 + iexec,
        "paired_runs": stats["pairs"],
        "raising_configurations": len(items) + len(deep),
        "notification_events": len(NOTIF),
        "intervention_executions": iexec,
        "deviation_bound_single_event": D,
        "deviation_bound_all_events": 1,
        "samples": [{"pair": list(items[0][:2]), "raising": list(items[0][2])}, {"pair": list(deep[0][:2]), "raising": "all 17 events", "D": 1}] + isamples[:3],
        "explanation": "each paired run replays one recorded schedule on the real code with and without raising notification handlers and compares every byte on the wire and both outcomes",
    }
    return core.Result("model_checking", cov, viol, assumptions=["raising handlers are bound in addition to the recording handlers on both sides", "same trusted base as C05/C06"])


def replay(ctx, data):
    if data.get("kind") == "intervention":
        scn = Intervention(data["op"])
        r = explore.execute(scn, tuple(data["choices"]), want_obs=True)
        print(r["why"], r["summary"], r["viol"])
        return 1 if r["viol"] else 0
    base, mut, div = _pair(data["req"], data["acc"], tuple(data["raising"]), data.get("nth"), tuple(data["choices"]))
    for sym, what in _compare(base, mut, div):
        print("DIFF:", sym, what)
    return 1 if _compare(base, mut, div) else 0
