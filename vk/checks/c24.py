"""C24 - SCU calls surface each response exactly once and fail cleanly.

Every peer response sequence up to a length over an alphabet (Pending with a
valid / undecodable / missing identifier, Success, Warning, Failure, Cancel,
response without Status, message of the wrong type, C-STORE sub-operation
request on a valid / invalid context, nothing until the timeout) is fed to the
real send_c_find / send_c_get / send_c_move iterators and to the
single-response calls through a scripted DIMSE provider; the yielded pairs are
compared with a reference iteration, and the AE lock / reactor checkpoint are
inspected while the iterator is suspended and after it ends.
"""
from __future__ import annotations

import itertools
from io import BytesIO

from vk import core, scp, stubs

IVRLE = scp.IVRLE
FILM = "1.2.840.10008.5.1.1.1"
FIND_ALPHA = ["pend", "pend_undec", "pend_lazy", "pend_noid", "success", "warning", "failure", "cancel", "nostatus", "wrongtype", "timeout"]
GM_ALPHA = ["pend", "success", "warning_id", "failure_id", "failure_undec", "failure_lazy", "cancel", "nostatus", "wrongtype", "timeout", "store_ok", "store_badcx"]
# an identifier that is well formed as a byte stream but holds an element whose value cannot be converted
# (Rows, VR US, with a 3-byte value): pydicom only fails when the element is read
LAZY = __import__("struct").pack("<HHL", 0x0008, 0x0058, 8) + b"1.2.3.1\x00" + __import__("struct").pack("<HHL", 0x0028, 0x0010, 3) + b"\x01\x02\x03"


class SpyLock:
    def __init__(self):
        self.held = 0
        self.max_held = 0

    def acquire(self, *a, **k):
        self.held += 1
        return True

    def release(self):
        self.held -= 1

    def locked(self):
        return self.held > 0

    def __enter__(self):
        self.acquire()
        return self

    def __exit__(self, *a):
        self.release()
        return False


def _rsp(op, name):
    from pynetdicom import dimse_primitives as dp
    from pynetdicom.dsutils import encode

    cls = {"find": dp.C_FIND, "get": dp.C_GET, "move": dp.C_MOVE}[op]
    good = encode(scp.mk_ds(3, False), True, True)
    failed = encode(_failed_ds(), True, True)
    if name == "timeout":
        return (None, None)
    if name == "wrongtype":
        r = dp.C_ECHO()
        r.MessageIDBeingRespondedTo = 1
        r.Status = 0
        return (1, r)
    if name in ("store_ok", "store_badcx"):
        r = dp.C_STORE()
        r.MessageID = 33
        r.AffectedSOPClassUID = scp.CT
        r.AffectedSOPInstanceUID = "1.2.3.9"
        r.Priority = 2
        r.DataSet = BytesIO(good)
        r._context_id = 3 if name == "store_ok" else 77
        return (r._context_id, r)
    r = cls()
    r.MessageIDBeingRespondedTo = 1
    st = {"pend": 0xFF00, "pend_undec": 0xFF00, "pend_lazy": 0xFF00, "pend_noid": 0xFF00, "success": 0x0000, "warning": 0xB001 if op == "find" else 0xB000, "warning_id": 0xB000, "failure": 0xA900, "failure_id": 0xA702, "failure_undec": 0xA702, "failure_lazy": 0xA702, "cancel": 0xFE00, "nostatus": None}[name]
    if st is not None:
        r.Status = st
    if name == "pend" and op == "find":
        r.Identifier = BytesIO(good)
    if name == "pend_undec":
        r.Identifier = BytesIO(b"\xff" * 8)  # pydicom raises on this
    if name in ("warning_id", "failure_id"):
        r.Identifier = BytesIO(failed)
    if name == "failure_undec":
        r.Identifier = BytesIO(b"\xff" * 8)
    if name in ("failure_lazy", "pend_lazy"):
        r.Identifier = BytesIO(LAZY)
    if op != "find" and name == "pend":
        r.NumberOfRemainingSuboperations = 1
        r.NumberOfCompletedSuboperations = 0
        r.NumberOfFailedSuboperations = 0
        r.NumberOfWarningSuboperations = 0
    return (1, r)


def _failed_ds():
    from pydicom.dataset import Dataset

    d = Dataset()
    d.FailedSOPInstanceUIDList = ["1.2.3.1"]
    return d


def reference(op, seq):
    """-> (list of expected yields as (status or None, identifier kind), aborted?, store handler calls)"""
    out = []
    aborted = False
    stores = 0
    for name in seq:
        if name in ("timeout", "wrongtype", "nostatus"):
            out.append((None, "none"))
            aborted = True
            break
        if name == "store_ok":
            stores += 1
            continue
        if name == "store_badcx":
            continue
        if name == "pend":
            out.append((0xFF00, "ds" if op == "find" else "none"))
            continue
        if name in ("pend_undec", "pend_lazy"):
            out.append((0xFF00, "none"))
            continue
        if name == "pend_noid":
            out.append((0xFF00, "any"))
            continue
        st = {"success": 0x0000, "warning": 0xB001 if op == "find" else 0xB000, "warning_id": 0xB000, "failure": 0xA900, "failure_id": 0xA702, "failure_undec": 0xA702, "failure_lazy": 0xA702, "cancel": 0xFE00}[name]
        out.append((st, "failed" if name in ("warning_id", "failure_id") else "none"))
        break
    else:
        # the script ran out: the next get_msg returns (None, None) = timeout
        out.append((None, "none"))
        aborted = True
    return out, aborted, stores


def eval_seq(op, seq):
    from pydicom.dataset import Dataset
    from pynetdicom import evt

    uid = {"find": scp.FIND, "get": scp.GET, "move": scp.MOVE}[op]
    assoc = stubs.make_assoc("requestor", contexts=[(1, uid, IVRLE, True, False), (3, scp.CT, IVRLE, False, True)])
    lock = SpyLock()
    assoc.ae._lock = lock
    assoc._is_paused = True
    aborts = []
    assoc.abort = lambda *a, **k: aborts.append(1)
    assoc._abort_nonblocking = assoc.abort
    assoc._abort_blocking = assoc.abort
    store_calls = []
    assoc.bind(evt.EVT_C_STORE, lambda e: store_calls.append(e.request.MessageID) or 0)
    assoc.dimse.script = [_rsp(op, n) for n in seq]
    ident = scp.mk_ds(0, False)
    bad = []
    try:
        if op == "find":
            gen = assoc.send_c_find(ident, uid)
        elif op == "get":
            gen = assoc.send_c_get(ident, uid)
        else:
            gen = assoc.send_c_move(ident, "DEST", uid)
    except Exception as exc:
        return [("send-raised", f"{op}: send raised {type(exc).__name__}: {exc}")]
    got = []
    try:
        for st, ds in gen:
            if lock.locked():
                bad.append(("lock-held-while-suspended", f"{op} {seq}: the AE lock is held while the response iterator is suspended (after yield {len(got)})"))
            kind = "none" if ds is None else ("failed" if "FailedSOPInstanceUIDList" in ds else "ds")
            got.append((int(st.Status) if "Status" in st else None, kind))
            # a caller may stop iterating at the first non-Pending response (`break`, or a bare next()):
            # at that suspension point the operation is over, so the association's own reactor must
            # already have been let go - nothing of it may depend on the iterator being exhausted
            if got[-1][0] not in (0xFF00, 0xFF01) and not assoc._reactor_checkpoint.is_set():
                bad.append(("reactor-held-at-final-response", f"{op} {seq}: the reactor checkpoint is still cleared while the iterator is suspended at its final response {got[-1]}"))
            if len(got) > len(seq) + 3:
                bad.append(("runaway", f"{op} {seq}: iterator yields more than the peer sent"))
                break
    except Exception as exc:
        bad.append((f"iterator-raised-{type(exc).__name__}", f"{op} {seq}: iterator raised {type(exc).__name__}: {exc}"))
    want, want_abort, want_stores = reference(op, seq)
    cmp_got = [(a, b if w[1] != "any" else "any") for (a, b), w in zip(got, want + [(None, "x")] * len(got))]
    if cmp_got != want or len(got) != len(want):
        first = next((i for i, (x, y) in enumerate(zip(cmp_got, want)) if x != y), min(len(got), len(want)))
        culprit = next((x for x in ("pend_noid", "pend_undec", "pend_lazy", "failure_undec", "failure_lazy") if x in seq), None) or (seq[min(first, len(seq) - 1)] if seq else "empty")
        bad.append((f"yields:{culprit}", f"{op} {seq}: yielded {got}, expected {want}"))
    if want_abort and not aborts:
        bad.append(("no-abort", f"{op} {seq}: association not aborted after timeout / invalid response"))
    if not want_abort and aborts:
        bad.append(("unexpected-abort", f"{op} {seq}: association aborted although the exchange was valid"))
    n_badcx = sum(1 for x in seq if x == "store_badcx")  # whether these reach the handler is C19's business
    if not (want_stores <= len(store_calls) <= want_stores + n_badcx) and not bad:
        bad.append(("substore-calls", f"{op} {seq}: C-STORE handler invoked {len(store_calls)} times, {want_stores} valid sub-operation requests"))
    if lock.locked():
        bad.append(("lock-held-at-end", f"{op} {seq}: AE lock still held after the iterator ended"))
    if not assoc._reactor_checkpoint.is_set():
        bad.append(("reactor-not-released", f"{op} {seq}: reactor checkpoint not released after the iterator ended"))
    return bad


def eval_single(call, rsp):
    """single-response SCU calls: rsp in {'ok', 'timeout', 'wrongtype', 'nostatus'}"""
    from pydicom.dataset import Dataset
    from pynetdicom import dimse_primitives as dp

    assoc = stubs.make_assoc("requestor", contexts=[(1, scp.ECHO, IVRLE, True, False), (3, scp.CT, IVRLE, True, False), (5, FILM, IVRLE, True, False)])
    assoc._is_paused = True
    aborts = []
    assoc.abort = lambda *a, **k: aborts.append(1)
    cls = {"echo": dp.C_ECHO, "store": dp.C_STORE, "n_get": dp.N_GET, "n_set": dp.N_SET, "n_action": dp.N_ACTION, "n_create": dp.N_CREATE, "n_delete": dp.N_DELETE}[call]
    if rsp == "timeout":
        script = [(None, None)]
    else:
        r = (dp.C_FIND if rsp == "wrongtype" else cls)()
        r.MessageIDBeingRespondedTo = 1
        if rsp != "nostatus":
            r.Status = 0x0000
        script = [(1, r)]
    assoc.dimse.script = script
    ds = scp.mk_ds(0)
    try:
        if call == "echo":
            out = assoc.send_c_echo()
        elif call == "store":
            out = assoc.send_c_store(ds)
        elif call == "n_get":
            out = assoc.send_n_get([(0x0010, 0x0010)], FILM, "1.2.3")[0]
        elif call == "n_set":
            out = assoc.send_n_set(scp.mk_ds(0, False), FILM, "1.2.3")[0]
        elif call == "n_action":
            out = assoc.send_n_action(scp.mk_ds(0, False), 1, FILM, "1.2.3")[0]
        elif call == "n_create":
            out = assoc.send_n_create(scp.mk_ds(0, False), FILM, "1.2.3")[0]
        elif call == "n_delete":
            out = assoc.send_n_delete(FILM, "1.2.3")
    except Exception as exc:
        return [(f"raised-{type(exc).__name__}", f"{call}/{rsp}: raised {type(exc).__name__}: {exc}")]
    bad = []
    st = int(out.Status) if isinstance(out, Dataset) and "Status" in out else None
    if rsp == "ok":
        if st != 0 or aborts:
            bad.append(("ok-result", f"{call}/ok: returned status {st}, aborted={bool(aborts)}"))
    else:
        if st is not None:
            bad.append(("status-from-nothing", f"{call}/{rsp}: returned status {st}"))
        if not aborts:
            bad.append(("no-abort", f"{call}/{rsp}: association not aborted"))
    if not assoc._reactor_checkpoint.is_set():
        bad.append(("reactor-not-released", f"{call}/{rsp}: reactor checkpoint not released"))
    return bad


def gen_cases(quick):
    L = 3 if quick else 4
    for op, alpha in (("find", FIND_ALPHA), ("get", GM_ALPHA), ("move", GM_ALPHA)):
        for n in range(0, L + 1):
            for seq in itertools.product(alpha, repeat=n):
                # nothing is consumed after the first terminal item: skip redundant tails
                term = [i for i, x in enumerate(seq) if x in ("success", "warning_id", "failure", "failure_id", "failure_undec", "failure_lazy", "cancel", "nostatus", "wrongtype", "timeout") or (x == "warning" and True)]
                if term and term[0] < n - 1:
                    continue
                yield op, seq


def _chunk(cases):
    out = {}
    for op, seq in cases:
        for k, t in eval_seq(op, seq):
            out.setdefault(f"{op}:{k}", (t, {"op": op, "seq": list(seq)}))
    return len(cases), out


def run(ctx: core.Ctx) -> core.Result:
    cases = list(gen_cases(ctx.quick))
    n = core.NPROC * 4
    res = core.pmap(_chunk, [(cases[i::n],) for i in range(n) if cases[i::n]], seed=ctx.seed)
    viol, seen, tot = [], set(), 0
    for cn, bad in res:
        tot += cn
        for k, (t, rp) in bad.items():
            if k not in seen:
                seen.add(k)
                viol.append(core.Violation(k, t, rp))
    ns = 0
    for call in ("echo", "store", "n_get", "n_set", "n_action", "n_create", "n_delete"):
        for rsp in ("ok", "timeout", "wrongtype", "nostatus"):
            ns += 1
            for k, t in eval_single(call, rsp):
                kk = f"{call}:{k}:{rsp}"
                if kk not in seen:
                    seen.add(kk)
                    viol.append(core.Violation(kk, t, {"call": call, "rsp": rsp}))
    idx = ctx.sample_indices(len(cases), 5)
    cov = {
        "evaluations": tot + ns,
        "distinct_nontrivial": len({c for c in cases if len(c[1]) >= 2}) + ns,
        "rule": f"C-FIND/C-GET/C-MOVE: every peer response sequence of length <= {3 if ctx.quick else 4} over {len(FIND_ALPHA)}/{len(GM_ALPHA)} kinds (tails after the first terminal response pruned: nothing is consumed after it), plus 7 single-response calls x 4 peer behaviours; non-trivial = at least two peer messages",
        "exhaustive": True,
        "samples": [{"op": cases[i][0], "peer_sends": list(cases[i][1])} for i in idx],
    }
    return core.Result("exploration", cov, viol, assumptions=["the DIMSE provider is scripted (get_msg returns the next peer message, (None, None) = nothing within the DIMSE timeout)", "documented results: empty status Dataset + None and an abort for timeout / wrong message type / response without Status"])


def replay(ctx, data):
    if "seq" in data:
        print(eval_seq(data["op"], tuple(data["seq"])))
    else:
        print(eval_single(data["call"], data["rsp"]))
    return 0
