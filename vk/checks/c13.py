"""C13 - associations are established only when the acceptance policy allows
them.

A raw peer sends reference-built A-ASSOCIATE-RQs whose calling / called AE
title byte fields range over all non-blank strings of length <= 3 over
{'A','a',' '} placed left, right and centred in the 16-byte field (plus
16-character, inner-space and NUL-padded forms) to a real acceptor under the
simulator, for every policy configuration (required calling titles, required
called title, user-identity types 1..5 x handler verdicts / exceptions); when
accepted it tries a C-ECHO.  Compared with the reference policy.
"""
from __future__ import annotations

import itertools
import struct

from vk import core, explore, peer as P, rawpeer, scen
from vk.ref import codec as ref

APP = "1.2.840.10008.3.1.1.1"
ECHO_RQ = P.pdata(1, P.command_set(0x0030, msg_id=7))


def title_fields():
    out = []
    words = set()
    for n in (1, 2, 3):
        for w in itertools.product("Aa ", repeat=n):
            s = "".join(w)
            if s.strip(" ") and s == s.strip(" "):
                words.add(s)
    for w in sorted(words):
        out.append((w, w.ljust(16)))
        out.append((w, w.rjust(16)))
        out.append((w, w.center(16)))
    out.append(("ABCDEFGHIJKLMNOP", "ABCDEFGHIJKLMNOP"))
    out.append(("A  B", "A  B".ljust(16)))
    out.append(("A-nul", "A" + "\x00" * 15))
    return out


def build_rq(calling_field, called_field, identity=None):
    ui = [("maxlen", 16382), ("implclass", "1.2.3.4")]
    if identity:
        ui.append(("userid_rq", identity, True, b"user", b"pass" if identity == 2 else b""))
    b = bytearray(ref.encode({"type": "RQ", "pv": 1, "called": "X", "calling": "Y", "app": APP, "pcs": [{"id": 1, "abstract": scen.VERIFICATION, "ts": [scen.IVRLE]}], "user": ui}))
    b[10:26] = called_field.encode("latin-1")
    b[26:42] = calling_field.encode("latin-1")
    return bytes(b)


class Policy(rawpeer.RawPeerScenario):
    def __init__(self, calling_field, called_field, require_calling, require_called, own_title, identity, id_handler):
        script = [("send", build_rq(calling_field, called_field, identity)), ("expect", 1), ("send", ECHO_RQ), ("expect", 2), ("send", P.RELEASE_RQ), ("expect", 3), ("close",)]
        super().__init__("acceptor", script, name="policy")
        self.p = (require_calling, require_called, own_title, identity, id_handler)

    def build(self, s):
        from pynetdicom import evt

        require_calling, require_called, own_title, identity, id_handler = self.p

        def setup(ae):
            ae.ae_title = own_title
            ae.require_calling_aet = list(require_calling)
            ae.require_called_aet = require_called

        self.ae_setup = setup

        def extra(ctx, sched):
            hs = []
            if id_handler != "unbound":
                def h(event):
                    ctx["handler_calls"].append(("user-id", event.user_id_type))
                    if id_handler == "raise":
                        raise ValueError("identity backend down")
                    return {"true-none": (True, None), "true-rsp": (True, b"r"), "false": (False, None)}[id_handler]

                hs.append((evt.EVT_USER_ID, h))
            return hs

        self.extra_handlers = extra
        return super().build(s)

    def summary(self, s, ctx, why):
        pdus = ctx["peer"]["pdus"]
        first = None
        if pdus:
            t, b = pdus[0]
            first = (t,) + (tuple(b[7:10]) if t == 3 else ())
        return (why, first, tuple(c[0] for c in ctx["handler_calls"]), bool(ctx["acc_assocs"]))


def reference(calling_field, called_field, require_calling, require_called, own_title, identity, id_handler):
    """-> (must_accept: True/False/None(unconstrained), set of acceptable rejection triples)"""
    if "\x00" in calling_field or "\x00" in called_field:
        return None, set()
    strip = lambda x: x.strip(" ")
    failed = set()
    if require_calling and strip(calling_field) not in {strip(x) for x in require_calling}:
        failed.add((1, 1, 3))
    if require_called and strip(called_field) != strip(own_title):
        failed.add((1, 1, 7))
    if identity and id_handler in ("false", "raise"):
        failed.add((2, 2, 1))
    return (not failed), failed


def eval_case(c):
    scn = Policy(*c)
    r = explore.execute(scn, ())
    why, first, calls, established = r["summary"]
    must, triples = reference(*c)
    bad = []
    for k, t in r["viol"]:
        bad.append((k, t))
    if why != "terminated":
        bad.append((f"not-terminated-{why}", f"ended {why}"))
    if first is None:
        bad.append(("no-answer", "the request was answered with neither AC nor RJ"))
        return bad, first
    accepted = first[0] == 2
    if must is True and not accepted:
        bad.append((f"wrongly-rejected-{first[1:]}", f"all enabled checks pass but the request was rejected with {first[1:]}"))
    if must is False:
        if accepted:
            bad.append(("wrongly-accepted-" + "+".join(str(t[2]) for t in sorted(triples)), f"the policy forbids this association (failed checks {sorted(triples)}) but it was accepted"))
        elif first[0] == 3 and first[1:] not in triples:
            bad.append((f"reject-reason-{first[1:]}", f"rejected with {first[1:]}, documented for the failed checks: {sorted(triples)}"))
    if not accepted and ("echo" in calls or established):
        bad.append(("handler-after-reject", f"service handlers {calls} invoked / association established although the request was rejected"))
    if accepted and must is not False and "echo" not in calls:
        bad.append(("echo-not-served", "accepted but the C-ECHO did not reach its handler"))
    return bad, first


def gen(quick):
    fields = title_fields()
    own = "A"
    # calling-title policy: every field form against four required lists
    for req in ([], ["A"], [" A "], ["A", "a A"]):
        for w, f in fields:
            yield (f, own.ljust(16), tuple(req), False, own, None, "unbound")
    # called-title policy: every field form against own titles
    for own_t in ("A", "a", "A a"):
        for w, f in fields:
            yield ("PEER".ljust(16), f, (), True, own_t, None, "unbound")
            if not quick:
                yield ("PEER".ljust(16), f, (), False, own_t, None, "unbound")
    # identity
    for ident in (1, 2, 3, 4, 5):
        for h in ("unbound", "true-none", "true-rsp", "false", "raise"):
            yield ("PEER".ljust(16), own.ljust(16), (), False, own, ident, h)
            yield ("PEER".ljust(16), own.ljust(16), ("PEER",), True, own, ident, h)
            yield ("OTHER".ljust(16), own.ljust(16), ("PEER",), True, own, ident, h)
            yield ("PEER".ljust(16), "WRONG".ljust(16), ("PEER",), True, own, ident, h)


def _chunk(cases):
    out = {}
    firsts = set()
    for c in cases:
        bad, first = eval_case(c)
        firsts.add(first)
        for k, t in bad:
            out.setdefault(k, (f"calling={c[0]!r} called={c[1]!r} require_calling={list(c[2])} require_called={c[3]} own={c[4]!r} identity={c[5]} handler={c[6]}: {t}", list(c)))
    return len(cases), out, firsts


def run(ctx: core.Ctx) -> core.Result:
    cases = list(gen(ctx.quick))
    n = core.NPROC * 4
    res = core.pmap(_chunk, [(cases[i::n],) for i in range(n) if cases[i::n]], seed=ctx.seed)
    viol, seen, tot, firsts = [], set(), 0, set()
    for cn, bad, fs in res:
        tot += cn
        firsts |= fs
        for k, (t, rp) in bad.items():
            if k not in seen:
                seen.add(k)
                viol.append(core.Violation(k, t, {"case": rp}))
    idx = ctx.sample_indices(len(cases), 4)
    cov = {
        "evaluations": tot,
        "distinct_nontrivial": len({(c[0], c[1], c[2], c[3], c[5], c[6]) for c in cases if c[2] or c[3] or c[5]}),
        "rule": f"{len(title_fields())} title byte fields x 4 required-calling lists; x 3 own titles with the called check on; 5 identity types x 5 handler behaviours x 4 title situations; each a real acceptor under the simulator answering a reference-built RQ; non-trivial = at least one policy check enabled",
        "distinct_answers": sorted(str(f) for f in firsts),
        "exhaustive": True,
        "samples": [list(map(str, cases[i])) for i in idx],
    }
    return core.Result("exploration", cov, viol, assumptions=["reference policy: leading/trailing spaces are not significant, everything else (case, inner spaces) is; NUL-padded titles are unconstrained", "any documented triple of a failed check is an acceptable rejection (precedence between failed checks is not judged)"])


def replay(ctx, data):
    c = data["case"]
    c[2] = tuple(c[2])
    print(eval_case(tuple(c)))
    return 0
