"""C01 - every PDU value survives encode/decode and matches the PS3.8 layout.

Bounded-exhaustive enumeration of values of all seven PDUs (per-field domains
of AE titles, UIDs, context IDs, result/source/reason codes, 1..3 presentation
contexts x 1..3 transfer syntaxes, every combination and multiplicity <= 2 of
the optional user-information sub-item kinds, user-identity types 1..5 with
field lengths 0..300, P-DATA lists of 1..3 PDVs of lengths 1..70000) through
primitive -> PDU -> bytes -> PDU -> primitive of the real code, compared with
the independent reference codec vk/ref/codec.py in both directions.
"""
from __future__ import annotations

import itertools

from vk import core
from vk.ref import codec as ref

APP = "1.2.840.10008.3.1.1.1"
AETS = ["A", "AB", "ABCDEFGHIJKLMNO", "ABCDEFGHIJKLMNOP", "A B", "A-_.$"]
UIDS = ["1", "1.2", "1.2.3", "1.2." + "3" * 59, "1.2." + "3" * 60]
CT = "1.2.840.10008.5.1.4.1.1.2"
VER = "1.2.840.10008.1.1"
TSS = ["1.2.840.10008.1.2", "1.2.840.10008.1.2.1", "1.2.840.10008.1.2.2"]


def to_primitive(v):
    from pynetdicom import pdu_primitives as pp
    from pynetdicom.presentation import PresentationContext
    from pynetdicom.transport import AddressInformation

    t = v["type"]
    if t in ("RQ", "AC"):
        p = pp.A_ASSOCIATE()
        p.application_context_name = v["app"]
        p.calling_ae_title = v["calling"]
        p.called_ae_title = v["called"]
        cxs = []
        for pc in v["pcs"]:
            cx = PresentationContext()
            cx.context_id = pc["id"]
            if t == "RQ":
                cx.abstract_syntax = pc["abstract"]
                cx.transfer_syntax = list(pc["ts"])
            else:
                cx.result = pc["result"]
                cx.transfer_syntax = [pc["ts"]]
            cxs.append(cx)
        if t == "RQ":
            p.presentation_context_definition_list = cxs
        else:
            p.presentation_context_definition_results_list = cxs
            p.result = 0
        ui = []
        for si in v["user"]:
            k = si[0]
            if k == "maxlen":
                o = pp.MaximumLengthNotification()
                o.maximum_length_received = si[1]
            elif k == "implclass":
                o = pp.ImplementationClassUIDNotification()
                o.implementation_class_uid = si[1]
            elif k == "implver":
                o = pp.ImplementationVersionNameNotification()
                o.implementation_version_name = si[1]
            elif k == "async":
                o = pp.AsynchronousOperationsWindowNegotiation()
                o.maximum_number_operations_invoked = si[1]
                o.maximum_number_operations_performed = si[2]
            elif k == "role":
                o = pp.SCP_SCU_RoleSelectionNegotiation()
                o.sop_class_uid = si[1]
                o.scu_role = si[2]
                o.scp_role = si[3]
            elif k == "sopext":
                o = pp.SOPClassExtendedNegotiation()
                o.sop_class_uid = si[1]
                o.service_class_application_information = si[2]
            elif k == "common":
                o = pp.SOPClassCommonExtendedNegotiation()
                o.sop_class_uid = si[1]
                o.service_class_uid = si[2]
                o.related_general_sop_class_identification = list(si[3])
            elif k == "userid_rq":
                o = pp.UserIdentityNegotiation()
                o.user_identity_type = si[1]
                o.positive_response_requested = si[2]
                o.primary_field = si[3]
                if si[4]:
                    o.secondary_field = si[4]
            elif k == "userid_ac":
                o = pp.UserIdentityNegotiation()
                o.server_response = si[1]
            ui.append(o)
        p.user_information = ui
        return p
    if t == "RJ":
        p = pp.A_ASSOCIATE()
        p.result = v["result"]
        p.result_source = v["source"]
        p.diagnostic = v["reason"]
        return p
    if t == "PDATA":
        p = pp.P_DATA()
        p.presentation_data_value_list = [[cx, d] for cx, d in v["pdvs"]]
        return p
    if t in ("RELRQ", "RELRP"):
        p = pp.A_RELEASE()
        if t == "RELRP":
            p.result = "affirmative"
        return p
    if t == "ABORT":
        if v["source"] == 0:
            p = pp.A_ABORT()
            p.abort_source = 0
        else:
            p = pp.A_P_ABORT()
            p.provider_reason = v["reason"]
        return p


PDU_CLS = {"RQ": "A_ASSOCIATE_RQ", "AC": "A_ASSOCIATE_AC", "RJ": "A_ASSOCIATE_RJ", "PDATA": "P_DATA_TF", "RELRQ": "A_RELEASE_RQ", "RELRP": "A_RELEASE_RP", "ABORT": "A_ABORT_RQ"}


def norm(v):
    """order-insensitive, padding-insensitive form for comparison"""
    if v["type"] in ("RQ", "AC"):
        w = dict(v)
        w["called"] = v["called"].strip(" ")
        w["calling"] = v["calling"].strip(" ")
        w["user"] = sorted((tuple(list(s[:3]) + [tuple(s[3])] if s[0] == "common" else s) for s in v["user"]), key=repr)
        w["pcs"] = [dict(pc, ts=list(pc["ts"]) if isinstance(pc["ts"], (list, tuple)) else pc["ts"]) for pc in v["pcs"]]
        return w
    return v


def prim_value(p, t):
    """ref-style value from a pynetdicom primitive (after to_primitive)."""
    from pynetdicom import pdu_primitives as pp

    if t in ("RQ", "AC"):
        v = {"type": t, "pv": 1, "called": p.called_ae_title, "calling": p.calling_ae_title, "app": str(p.application_context_name), "pcs": [], "user": []}
        if t == "RQ":
            for cx in p.presentation_context_definition_list:
                v["pcs"].append({"id": cx.context_id, "abstract": str(cx.abstract_syntax), "ts": [str(x) for x in cx.transfer_syntax]})
        else:
            for cx in p.presentation_context_definition_results_list:
                v["pcs"].append({"id": cx.context_id, "result": cx.result, "ts": str(cx.transfer_syntax[0])})
        for o in p.user_information:
            n = type(o).__name__
            if n == "MaximumLengthNotification":
                v["user"].append(("maxlen", o.maximum_length_received))
            elif n == "ImplementationClassUIDNotification":
                v["user"].append(("implclass", str(o.implementation_class_uid)))
            elif n == "ImplementationVersionNameNotification":
                v["user"].append(("implver", o.implementation_version_name))
            elif n == "AsynchronousOperationsWindowNegotiation":
                v["user"].append(("async", o.maximum_number_operations_invoked, o.maximum_number_operations_performed))
            elif n == "SCP_SCU_RoleSelectionNegotiation":
                v["user"].append(("role", str(o.sop_class_uid), bool(o.scu_role), bool(o.scp_role)))
            elif n == "SOPClassExtendedNegotiation":
                v["user"].append(("sopext", str(o.sop_class_uid), bytes(o.service_class_application_information)))
            elif n == "SOPClassCommonExtendedNegotiation":
                v["user"].append(("common", str(o.sop_class_uid), str(o.service_class_uid), [str(x) for x in o.related_general_sop_class_identification]))
            elif n == "UserIdentityNegotiation":
                if o.server_response is not None and o.user_identity_type is None:
                    v["user"].append(("userid_ac", bytes(o.server_response)))
                else:
                    v["user"].append(("userid_rq", o.user_identity_type, bool(o.positive_response_requested), bytes(o.primary_field), bytes(o.secondary_field or b"")))
        return v
    if t == "RJ":
        return {"type": "RJ", "result": p.result, "source": p.result_source, "reason": p.diagnostic}
    if t == "PDATA":
        return {"type": "PDATA", "pdvs": [(cx, bytes(d)) for cx, d in p.presentation_data_value_list]}
    if t in ("RELRQ", "RELRP"):
        return {"type": "RELRP" if p.result == "affirmative" else "RELRQ"}
    if t == "ABORT":
        if type(p).__name__ == "A_ABORT":
            return {"type": "ABORT", "source": p.abort_source, "reason": 0}
        return {"type": "ABORT", "source": 2, "reason": p.provider_reason}


def eval_value(v):
    from pynetdicom import pdu as P

    bad = []
    t = v["type"]
    cls = getattr(P, PDU_CLS[t])
    try:
        prim = to_primitive(v)
        pd = cls()
        pd.from_primitive(prim)
        b = pd.encode()
    except Exception as exc:
        return [("build-raised", f"building/encoding a well-formed {t} raised {type(exc).__name__}: {exc}")]
    # (1) strict structural decode by the reference (every length field)
    try:
        d = ref.decode(bytes(b))
    except ref.Malformed as exc:
        return [("length-or-layout", f"{t}: reference decoder rejects the bytes produced: {exc}")]
    # (2) the value on the wire is the value asked for
    if norm(d) != norm(v):
        bad.append(("wire-value", f"{t}: bytes decode (by the reference) to {_short(norm(d))}, value was {_short(norm(v))}"))
    # (3) byte-exact layout incl. reserved bytes
    if ref.encode(d) != bytes(b):
        bad.append(("byte-layout", f"{t}: bytes differ from the PS3.8 layout of the same value (first difference at offset {_fd(ref.encode(d), bytes(b))})"))
    # (4) implementation decode(encode) = id, stable
    try:
        pd2 = cls()
        pd2.decode(bytes(b))
        if pd2 != pd:
            bad.append(("decode-not-equal", f"{t}: decode(encode(pdu)) != pdu"))
        if pd2.encode() != b:
            bad.append(("re-encode-differs", f"{t}: encode(decode(bytes)) != bytes"))
        # (5) primitive round trip
        back = prim_value(pd2.to_primitive(), t)
        if norm(back) != norm(v):
            bad.append(("primitive-round-trip", f"{t}: primitive after the round trip {_short(norm(back))} != {_short(norm(v))}"))
    except Exception as exc:
        bad.append(("decode-raised", f"{t}: decoding its own bytes raised {type(exc).__name__}: {exc}"))
    # (6) the implementation decodes the reference encoding of the value to the same value
    try:
        rb = ref.encode(v)
        pd3 = cls()
        pd3.decode(rb)
        if norm(prim_value(pd3.to_primitive(), t)) != norm(v):
            bad.append(("decode-of-reference-bytes", f"{t}: decoding the reference encoding gives a different value"))
    except Exception as exc:
        bad.append(("decode-of-reference-raised", f"{t}: decoding the reference encoding raised {type(exc).__name__}: {exc}"))
    return bad


def _short(x):
    s = repr(x)
    return s if len(s) < 300 else s[:300] + "..."


def _fd(a, b):
    for i, (x, y) in enumerate(zip(a, b)):
        if x != y:
            return i
    return min(len(a), len(b))


# ---- value generators --------------------------------------------------------

BASE_USER = [("maxlen", 16382), ("implclass", "1.2.3.4")]
OPAQUE = [pre + mid + post for pre in (b"", b"\x00", b" ") for mid in (b"", b"x", b"ab") for post in (b"", b"\x00", b"\x00\x00", b" ", b"\xff", b"\n") if pre + mid + post]


def userid_variants():
    out = []
    for ty in (1, 2, 3, 4, 5):
        for plen in (1, 2, 3, 300):
            for rr in (False, True):
                sec_lens = (1, 2, 300) if ty == 2 else (0,)
                for sl in sec_lens:
                    out.append(("userid_rq", ty, rr, b"p" * plen, b"s" * sl))
    return out


def opt_subitems():
    """(kind -> list of alternatives, each alternative a list of sub-items of multiplicity 0..2)"""
    role = [("role", CT, a, b) for a in (False, True) for b in (False, True)]
    kinds = {
        "implver": [[], [("implver", "V")], [("implver", "VERSION_NAME_16C")]],
        "async": [[], [("async", 1, 1)], [("async", 65535, 0)]],
        "role": [[], [role[1]], [role[2], ("role", VER, True, True)]],
        "sopext": [[], [("sopext", CT, b"\x01")], [("sopext", CT, b"\x01\x02\x03"), ("sopext", VER, b"")]],
        "common": [[], [("common", CT, "1.2.840.10008.4.2", [])], [("common", CT, "1.2.840.10008.4.2", ["1.2.3", "1.2.3.4"]), ("common", VER, "1.2", ["1"])]],
        "userid": [[], [("userid_rq", 1, False, b"user", b"")]],
    }
    return kinds


def gen_values(quick):
    # RJ: all legal (result, source, reason)
    for res in (1, 2):
        for src, reasons in ((1, (1, 2, 3, 7)), (2, (1, 2)), (3, (1, 2))):
            for r in reasons:
                yield {"type": "RJ", "result": res, "source": src, "reason": r}
    yield {"type": "RELRQ"}
    yield {"type": "RELRP"}
    yield {"type": "ABORT", "source": 0, "reason": 0}
    for r in (0, 1, 2, 4, 5, 6):
        yield {"type": "ABORT", "source": 2, "reason": r}
    # P-DATA
    lens = [1, 2, 3, 255, 256, 70000]
    for n in (1, 2, 3):
        for ls in itertools.product(lens if n < 3 else lens[:4], repeat=n):
            for cxs in ((1,) * n, (255, 3, 127)[:n]):
                yield {"type": "PDATA", "pdvs": [(cx, bytes([3 if i == n - 1 else 0]) + bytes((j * 5 + i) % 256 for j in range(L - 1))) for i, (cx, L) in enumerate(zip(cxs, ls))]}
    # A-ASSOCIATE-RQ / AC: fixed fields one at a time
    def rq(**kw):
        v = {"type": "RQ", "pv": 1, "called": "CALLED", "calling": "CALLING", "app": APP, "pcs": [{"id": 1, "abstract": VER, "ts": [TSS[0]]}], "user": list(BASE_USER)}
        v.update(kw)
        return v

    def ac(**kw):
        v = {"type": "AC", "pv": 1, "called": "CALLED", "calling": "CALLING", "app": APP, "pcs": [{"id": 1, "result": 0, "ts": TSS[0]}], "user": list(BASE_USER)}
        v.update(kw)
        return v

    for a in AETS:
        for b in AETS:
            yield rq(called=a, calling=b)
        yield ac(called=a, calling=a)
    for u in UIDS:
        yield rq(app=u)
        yield rq(pcs=[{"id": 1, "abstract": u, "ts": [u]}])
        yield rq(user=[("maxlen", 0), ("implclass", u)])
        yield ac(pcs=[{"id": 1, "result": 0, "ts": u}])
        yield rq(user=BASE_USER + [("role", u, True, False)])
        yield rq(user=BASE_USER + [("sopext", u, b"\x00\x01")])
        yield rq(user=BASE_USER + [("common", u, u, [u, "1"])])
    for ml in (0, 1, 16382, 2**32 - 1):
        yield rq(user=[("maxlen", ml), ("implclass", "1.2.3")])
    # presentation contexts: 1..3 contexts x 1..3 transfer syntaxes x IDs
    for n in (1, 2, 3):
        for ids in ((1, 3, 5), (255, 127, 3), (7, 7, 7)):
            for tsl in itertools.product((1, 2, 3), repeat=n):
                yield rq(pcs=[{"id": ids[i], "abstract": (VER, CT, VER)[i], "ts": TSS[: tsl[i]]} for i in range(n)])
            for results in itertools.product((0, 1, 2, 3, 4), repeat=n):
                yield ac(pcs=[{"id": ids[i], "result": results[i], "ts": TSS[i % 3]} for i in range(n)])
    # user information: every combination of the optional kinds, multiplicity 0..2
    kinds = opt_subitems()
    names = list(kinds)
    for combo in itertools.product(*[range(len(kinds[k])) for k in names]):
        extra = [s for k, i in zip(names, combo) for s in kinds[k][i]]
        yield rq(user=BASE_USER + extra)
        if not quick:
            yield rq(user=list(reversed(BASE_USER + extra)))
    for uv in userid_variants():
        yield rq(user=BASE_USER + [uv])
    for rl in (0, 1, 2, 3, 300):
        yield ac(user=BASE_USER + [("userid_ac", b"r" * rl)])
    # opaque octet fields carry arbitrary bytes: contents that begin / end with or consist only of
    # 0x00, space, 0xFF, LF (values a text- or UID-style (un)padding routine would damage)
    for blob in OPAQUE:
        for ty in (1, 2, 3, 4, 5):
            yield rq(user=BASE_USER + [("userid_rq", ty, True, blob, blob if ty == 2 else b"")])
        yield ac(user=BASE_USER + [("userid_ac", blob)])
        yield rq(user=BASE_USER + [("sopext", CT, blob)])
        yield {"type": "PDATA", "pdvs": [(1, b"\x03" + blob), (3, b"\x00" + blob)]}
    for combo in itertools.product(range(3), range(3), range(3)):
        yield ac(user=BASE_USER + kinds["implver"][combo[0]] + kinds["async"][combo[1]] + kinds["role"][combo[2]])


def _chunk(lo, hi, quick):
    out = {}
    n = 0
    for i, v in enumerate(gen_values(quick)):
        if i < lo:
            continue
        if i >= hi:
            break
        n += 1
        for k, t in eval_value(v):
            kinds = "+".join(sorted({s[0] for s in v.get("user", []) if s[0] not in ("maxlen", "implclass")})) if v["type"] in ("RQ", "AC") else ""
            out.setdefault(f"{v['type']}:{k}:{kinds}", (t, _jsonable(v)))
    return n, out


def _jsonable(v):
    import json

    def f(o):
        if isinstance(o, bytes):
            return {"hex": o.hex()} if len(o) < 64 else {"len": len(o), "fill": o[:2].hex()}
        if isinstance(o, tuple):
            return [f(x) for x in o]
        if isinstance(o, list):
            return [f(x) for x in o]
        if isinstance(o, dict):
            return {k: f(x) for k, x in o.items()}
        return o

    return f(v)


def run(ctx: core.Ctx) -> core.Result:
    total = sum(1 for _ in gen_values(ctx.quick))
    res = core.pmap(_chunk, [(lo, hi, ctx.quick) for lo, hi in core.chunks(total, core.NPROC * 2)], seed=ctx.seed)
    viol, seen, n = [], set(), 0
    for cn, bad in res:
        n += cn
        for k, (t, rp) in bad.items():
            if k not in seen:
                seen.add(k)
                viol.append(core.Violation(k, t, {"value": rp}))
    vals = list(itertools.islice(gen_values(ctx.quick), 0, None, max(1, total // 5)))[:5]
    cov = {
        "evaluations": n,
        "distinct_nontrivial": total - 11,
        "rule": "values of the 7 PDU types over per-field domains (see module docstring); six checks per value: strict reference decode of the produced bytes, value equality, byte-exact PS3.8 layout, decode(encode)=id, primitive round trip, decoding of the reference encoding; non-trivial = all but the fixed-content release/abort PDUs",
        "exhaustive": True,
        "samples": [_jsonable(v) for v in vals],
    }
    return core.Result("exploration", cov, viol, assumptions=["reference codec vk/ref/codec.py transcribed from PS3.8 9.3 and PS3.7 D.3.3", "the order of user-information sub-items is not prescribed by PS3.8: values are compared as multisets, bytes against the reference layout of the same item order"])


def replay(ctx, data):
    print("replay needs the value; see evidence samples / violation text")
    return 0
