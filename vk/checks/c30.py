"""C30 - storage apps never write outside their storage directory.

Bounded-exhaustive enumeration of SOP Instance UID / SOP Class UID strings
(all strings of length <= 3 (thorough 4) over {'1', '.', '/', '\\', '~', NUL}
plus a hostile list: '../x', '/abs/x', 'a/../../x', '..', drive-letter and UNC
forms, newline, very long) through the real handle_store of qrscp and of
storescp, inside a jail directory three levels deep; the whole jail is
snapshotted before and after each call and everything created or modified must
lie inside the configured storage directory (or be the database file).
"""
from __future__ import annotations

import itertools
import logging
import os
import shutil
import tempfile
import types

from vk import core

ALPHA = ["1", ".", "/", "\\", "~", "\x00"]
TAILS = ["/../../x", "/../../../outside/x", "\\..\\..\\x"]
LONG_FILL = ["A", "/", ".", "1", "~", "\\"]
LONG_LENGTHS = [63, 64, 65, 254, 255, 256, 257, 258, 300, 1023, 1024, 4095, 4096, 4097]
CT = "1.2.840.10008.5.1.4.1.1.2"


def hostile(jail):
    return ["../x", "../../x", "/abs/x", os.path.join(jail, "outside", "x"), "a/../../x", "..", ".", "", "....//....//x", "C:\\x", "\\\\host\\share\\x", "x\ny", "1.2.3\n../x", "1" * 300, "~/x", "1.2.3/../../../x", "./x", "sub/x", "1.2.3 ", " ../x"]


def snapshot(root):
    out = {}
    for d, dirs, files in os.walk(root):
        for f in files + dirs:
            p = os.path.join(d, f)
            try:
                st = os.lstat(p)
                out[p] = (st.st_size if not os.path.isdir(p) else -1, st.st_mtime_ns)
            except OSError:
                pass
    return out


def mk_event(uid, sop_class):
    from pydicom.dataset import Dataset, FileMetaDataset

    ds = Dataset()
    ds.PatientID = "1"
    ds.PatientName = "A^B"
    ds.StudyInstanceUID = "1.2"
    ds.SeriesInstanceUID = "1.2.3"
    ds.SOPClassUID = sop_class
    ds.SOPInstanceUID = uid
    meta = FileMetaDataset()
    meta.TransferSyntaxUID = "1.2.840.10008.1.2.1"
    meta.MediaStorageSOPClassUID = CT
    meta.MediaStorageSOPInstanceUID = "1.2.3.4"
    meta.ImplementationClassUID = "1.2.3"
    return types.SimpleNamespace(
        dataset=ds,
        file_meta=meta,
        context=types.SimpleNamespace(transfer_syntax="1.2.840.10008.1.2.1"),
        encoded_dataset=lambda include_meta=True: b"",
        assoc=types.SimpleNamespace(requestor=types.SimpleNamespace(address="127.0.0.1", port=1), ae=types.SimpleNamespace(ae_title="X")),
        timestamp=__import__("datetime").datetime(2020, 1, 1),
        request=types.SimpleNamespace(AffectedSOPClassUID=sop_class, AffectedSOPInstanceUID=uid),
    )


def eval_case(app, uid, sop_class, jail):
    import warnings

    storage = os.path.join(jail, "a", "b", "storage")
    work = os.path.join(jail, "a", "b", "cwd")
    os.makedirs(storage, exist_ok=True)
    os.makedirs(work, exist_ok=True)
    # sub-directories an earlier run / an operator may have left in the storage
    # directory; they make prefix-only protection ("CT." + uid) insufficient
    for sub in ("CT.", "UN.", "1", "_"):
        os.makedirs(os.path.join(storage, sub), exist_ok=True)
    os.makedirs(os.path.join(jail, "outside"), exist_ok=True)
    dbfile = os.path.join(jail, "a", "b", "instances.sqlite")
    logger = logging.getLogger("vk.c30")
    logger.handlers = [logging.NullHandler()]
    logger.propagate = False
    before = snapshot(jail)
    old = os.getcwd()
    os.chdir(work)
    status = None
    exc = None
    try:
        with warnings.catch_warnings():
            warnings.simplefilter("ignore")
            ev = mk_event(uid, sop_class)
            if app == "qrscp":
                from pynetdicom.apps.qrscp import db as qdb
                from pynetdicom.apps.qrscp.handlers import handle_store

                url = f"sqlite:///{dbfile}"
                if not os.path.exists(dbfile):
                    qdb.create(url)
                    before = snapshot(jail)
                status = handle_store(ev, storage, url, types.SimpleNamespace(), logger)
            else:
                from pynetdicom.apps.common import handle_store

                args = types.SimpleNamespace(ignore=False, output_directory=storage)
                status = handle_store(ev, args, logger)
    except Exception as e:  # noqa
        exc = f"{type(e).__name__}: {e}"
    finally:
        os.chdir(old)
    after = snapshot(jail)
    changed = [p for p in after if before.get(p) != after[p] and not os.path.isdir(p)]
    newdirs = [p for p in after if p not in before and os.path.isdir(p)]
    bad = []
    for p in changed + newdirs:
        rp = os.path.realpath(p)
        if rp == os.path.realpath(dbfile) or rp.startswith(os.path.realpath(dbfile)):
            continue
        if rp == os.path.realpath(storage) or rp.startswith(os.path.realpath(storage) + os.sep):
            continue
        bad.append(p[len(jail) :])
    # clean what was written so that cases stay independent
    for p in changed + newdirs:
        if os.path.realpath(p) != os.path.realpath(dbfile):
            try:
                shutil.rmtree(p) if os.path.isdir(p) else os.unlink(p)
            except OSError:
                pass
    return bad, status, exc, bool(changed)


def shape(uid):
    if ".." in uid and ("/" in uid or "\\" in uid):
        return "dotdot-separator"
    if uid.startswith("/"):
        return "absolute"
    if "/" in uid:
        return "separator"
    if "\\" in uid:
        return "backslash"
    return "other"


def _chunk(cases):
    jail = tempfile.mkdtemp(prefix="vk-c30-")
    out = {}
    wrote = 0
    try:
        host = hostile(jail)
        for app, kind, val, field in cases:
            uid = host[val] if kind == "hostile" else val
            if field == "instance":
                bad, status, exc, w = eval_case(app, uid, CT, jail)
            else:
                bad, status, exc, w = eval_case(app, "1.2.3.4", uid, jail)
            wrote += w
            if bad:
                out.setdefault(f"{app}:{field}:{shape(uid)}", (f"{app} handle_store with SOP {field} UID {uid!r}: wrote outside the storage directory: {bad[:3]}", {"app": app, "field": field, "uid": uid}))
    finally:
        shutil.rmtree(jail, ignore_errors=True)
    return len(cases), out, wrote


def run(ctx: core.Ctx) -> core.Result:
    L = ctx.pick(3, 4)
    strings = ["".join(t) for n in range(1, L + 1) for t in itertools.product(ALPHA, repeat=n)]
    cases = []
    nh = len(hostile("/tmp/x"))
    for app in ("qrscp", "storescp"):
        for s_ in strings:
            cases.append((app, "str", s_, "instance"))
        for s_ in [""] + strings[: 6 + 36]:
            for tail in TAILS:
                cases.append((app, "str", s_ + tail, "instance"))
        for i in range(nh):
            cases.append((app, "hostile", i, "instance"))
            cases.append((app, "hostile", i, "class"))
        # long values: a run of one filler character (lengths around 64, NAME_MAX and the powers of two
        # up to PATH_MAX) followed by each traversal tail - sanitisers, counters and the kernel's own
        # limits all change behaviour with length
        for fill in LONG_FILL:
            for n_ in LONG_LENGTHS:
                for tail in [""] + TAILS + ["/../x", "../../x"]:
                    cases.append((app, "str", fill * n_ + tail, "instance"))
        for s_ in strings[: 6 + 36]:
            cases.append((app, "str", s_, "class"))
    n = core.NPROC * 2
    res = core.pmap(_chunk, [(cases[i::n],) for i in range(n) if cases[i::n]], seed=ctx.seed)
    viol, seen, tot, wrote = [], set(), 0, 0
    for cn, bad, w in res:
        tot += cn
        wrote += w
        for k, (t, rp) in bad.items():
            if k not in seen:
                seen.add(k)
                viol.append(core.Violation(k, t, rp))
    cov = {
        "evaluations": tot,
        "distinct_nontrivial": wrote,
        "rule": f"both apps x (all {len(strings)} strings of length <= {L} over {{'1','.','/','\\\\','~',NUL}} + {nh} hostile strings + every string of length <= 2 followed by each of 3 traversal tails + runs of {len(LONG_FILL)} filler characters of {len(LONG_LENGTHS)} lengths from 63 to 4097 followed by each of 6 tails) as SOP Instance UID, hostile strings and short strings as SOP Class UID; jail directory snapshotted before/after every call; non-trivial = the call wrote something",
        "exhaustive": True,
        "samples": [{"app": "qrscp", "uid": "../x"}, {"app": "storescp", "uid": "/.."}, {"app": "qrscp", "uid": "1/1"}],
    }
    return core.Result("exploration", cov, viol, assumptions=["handlers are called directly with an event double carrying a real pydicom Dataset; the decoding path is not involved", "the process runs as root on a POSIX file system"])


def replay(ctx, data):
    jail = tempfile.mkdtemp(prefix="vk-c30-")
    try:
        print(eval_case(data["app"], data["uid"] if data["field"] == "instance" else "1.2.3.4", CT if data["field"] == "instance" else data["uid"], jail))
    finally:
        shutil.rmtree(jail, ignore_errors=True)
    return 0
