"""C06 - both peers agree on how an association ended, and it always ends.

Two real AEs (requestor + acceptor server), every pair of user scripts from
REQ_SCRIPTS x ACC_SCRIPTS; all schedules with at most D deviations from the
default scheduler (D=1 quick, D=2 thorough), each run to completion.
"""
from __future__ import annotations

from vk import core, explore, lifecycle, monitors as M

MONS = [M.mon_terminates, M.mon_outcome_agreement, M.mon_provider_idle, M.mon_time_bound]


def scenarios():
    out = []
    for req in lifecycle.REQ_SCRIPTS:
        for acc in lifecycle.ACC_SCRIPTS:
            out.append(lifecycle.Lifecycle(req, acc, monitors=MONS))
    return out


def run(ctx: core.Ctx) -> core.Result:
    return lifecycle.run_family(ctx, scenarios(), D=ctx.pick(1, 2), level="model_checking")


def replay(ctx, data):
    return lifecycle.replay(ctx, data, MONS)
