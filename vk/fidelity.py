"""Fidelity self-test: the simulator's doubles of the OS services pynetdicom
uses (TCP sockets, select, queue.Queue, threading.Event / Lock / Thread) are
run through the same operation sequences as the real ones (loopback sockets,
real threads) and must give the same observable results.

Every sequence is written against a tiny environment interface (`RealEnv` /
`SimEnv`); an observation is whatever the sequence returns (bytes read,
exception class names, booleans).  Sequences whose real result legitimately
depends on timing inside the kernel are written so that the observation is the
timing-independent part (e.g. total bytes rather than per-recv chunks).

Known, documented differences (not compared):
  * one recv() of the simulator returns at most one sent segment (TCP may
    coalesce; pynetdicom must not depend on either - that is property C03);
  * after the peer closed, the simulator lets later send() calls succeed (the
    RST is 'still in flight'); the real stack raises EPIPE once the RST is in.
    SimNet.send_to_closed_raises selects the other behaviour.

usage: python -m vk.fidelity   (exit 0 iff all sequences agree)
"""
from __future__ import annotations

import queue as real_queue
import select as real_select
import socket as real_socket
import threading as real_threading
import time as real_time

from vk import sim


def _exc(fn, *a):
    try:
        return ("ok", fn(*a))
    except BlockingIOError:
        return ("exc", "BlockingIOError")
    except (real_socket.timeout, TimeoutError):
        return ("exc", "timeout")
    except ConnectionRefusedError:
        return ("exc", "ConnectionRefusedError")
    except ConnectionResetError:
        return ("exc", "ConnectionResetError")
    except BrokenPipeError:
        return ("exc", "BrokenPipeError")
    except ValueError:
        return ("exc", "ValueError")
    except RuntimeError:
        return ("exc", "RuntimeError")
    except OSError as e:
        return ("exc", f"OSError-{e.errno}")
    except real_queue.Empty:
        return ("exc", "Empty")


class RealEnv:
    name = "real"
    settle = 0.05

    def socket(self):
        return real_socket.socket(real_socket.AF_INET, real_socket.SOCK_STREAM)

    def select(self, r, t):
        return real_select.select(r, [], [], t)[0]

    def Queue(self):
        return real_queue.Queue()

    def Event(self):
        return real_threading.Event()

    def Lock(self):
        return real_threading.Lock()

    def Thread(self, fn):
        return real_threading.Thread(target=fn, daemon=True)

    def sleep(self, d):
        real_time.sleep(d)

    def now(self):
        return real_time.monotonic()

    def pair(self):
        ls = self.socket()
        ls.setsockopt(real_socket.SOL_SOCKET, real_socket.SO_REUSEADDR, 1)
        ls.bind(("127.0.0.1", 0))
        ls.listen(5)
        c = self.socket()
        c.connect(ls.getsockname())
        s, _ = ls.accept()
        return c, s, ls

    def run(self, fn):
        return fn(self)


class SimEnv(RealEnv):
    name = "sim"
    settle = 0.05

    def socket(self):
        return sim.SimSocket()

    def select(self, r, t):
        return sim.SimSelectModule.select(r, [], [], t)[0]

    def Queue(self):
        return sim.SimQueue()

    def Event(self):
        return sim.SimEvent()

    def Lock(self):
        return sim.SimLock()

    def Thread(self, fn):
        return real_threading.Thread(target=fn, daemon=True)  # start/is_alive/join are patched by sim.installed

    def sleep(self, d):
        sim.active().sleep(d)

    def now(self):
        return sim.active().monotonic()

    def run(self, fn):
        sched = sim.Sched(max_steps=20000, max_time=120.0)
        out = {}
        with sim.installed(sched, watch=False):
            sched.net = getattr(sched, "net", None) or sim.SimNet(sched)

            def body():
                out["r"] = fn(self)

            sched.spawn(body, "fidelity")
            sched.run()
        if "r" not in out:
            return ("harness", "sequence did not finish under the simulator", sched.describe_blocked())
        return out["r"]


# ---------------------------------------------------------------------------
# sequences


def s_basic(E):
    c, s, ls = E.pair()
    c.send(b"hello")
    E.sleep(E.settle)
    a = s.recv(100)
    s.send(b"yo")
    E.sleep(E.settle)
    b = c.recv(100)
    for x in (c, s, ls):
        x.close()
    return a, b


def s_partial(E):
    c, s, ls = E.pair()
    c.send(b"abcdef")
    E.sleep(E.settle)
    r = (s.recv(2), s.recv(2), s.recv(100))
    for x in (c, s, ls):
        x.close()
    return r


def s_two_segments_total(E):
    c, s, ls = E.pair()
    c.send(b"abc")
    E.sleep(E.settle)
    c.send(b"defg")
    E.sleep(E.settle)
    got = b""
    s.settimeout(0.2)
    while len(got) < 7:
        got += s.recv(100)
    for x in (c, s, ls):
        x.close()
    return got


def s_eof_after_data(E):
    c, s, ls = E.pair()
    c.send(b"xyz")
    c.close()
    E.sleep(E.settle)
    r = (s.recv(2), s.recv(10), s.recv(10), s.recv(10))
    s.close()
    ls.close()
    return r


def s_shutdown_eof(E):
    c, s, ls = E.pair()
    c.shutdown(real_socket.SHUT_RDWR)
    E.sleep(E.settle)
    r = s.recv(10)
    c.close()
    s.close()
    ls.close()
    return r


def s_recv_timeout(E):
    c, s, ls = E.pair()
    s.settimeout(0.05)
    t0 = E.now()
    r = _exc(s.recv, 10)
    dt = E.now() - t0
    for x in (c, s, ls):
        x.close()
    return r, 0.04 <= dt < 1.0


def s_recv_nonblocking(E):
    c, s, ls = E.pair()
    s.settimeout(0)
    r1 = _exc(s.recv, 10)
    c.send(b"q")
    E.sleep(E.settle)
    r2 = _exc(s.recv, 10)
    for x in (c, s, ls):
        x.close()
    return r1, r2


def s_accepted_socket_blocking(E):
    c, s, ls = E.pair()
    r = s.gettimeout()
    for x in (c, s, ls):
        x.close()
    return r


def s_select(E):
    c, s, ls = E.pair()
    a = bool(E.select([s], 0))
    c.send(b"1")
    E.sleep(E.settle)
    b = bool(E.select([s], 0))
    s.recv(10)
    d = bool(E.select([s], 0))
    c.close()
    E.sleep(E.settle)
    e = bool(E.select([s], 0))
    f = s.recv(10)
    s.close()
    ls.close()
    return a, b, d, e, f


def s_select_timeout(E):
    c, s, ls = E.pair()
    t0 = E.now()
    r = bool(E.select([s], 0.05))
    dt = E.now() - t0
    for x in (c, s, ls):
        x.close()
    return r, 0.04 <= dt < 1.0


def s_select_closed(E):
    c, s, ls = E.pair()
    s.close()
    r = _exc(E.select, [s], 0)
    c.close()
    ls.close()
    return r, s.fileno()


def s_ops_on_closed(E):
    c, s, ls = E.pair()
    s.close()
    r = (_exc(s.recv, 10), _exc(s.send, b"x"), _exc(s.getsockname)[0])
    s.close()  # closing twice is fine
    c.close()
    ls.close()
    return r


def s_connect_refused(E):
    ls = E.socket()
    ls.bind(("127.0.0.1", 0))
    addr = ls.getsockname()
    ls.close()
    c = E.socket()
    r = _exc(c.connect, addr)
    c.close()
    return r[1] if r[0] == "exc" else r


def s_accept_timeout(E):
    ls = E.socket()
    ls.bind(("127.0.0.1", 0))
    ls.listen(1)
    ls.settimeout(0.05)
    r = _exc(ls.accept)
    ls.close()
    return r


def s_select_listener(E):
    ls = E.socket()
    ls.bind(("127.0.0.1", 0))
    ls.listen(1)
    a = bool(E.select([ls], 0))
    c = E.socket()
    c.connect(ls.getsockname())
    E.sleep(E.settle)
    b = bool(E.select([ls], 0))
    s, peer = ls.accept()
    same = peer == c.getsockname() and s.getpeername() == c.getsockname() and c.getpeername() == ls.getsockname()
    for x in (c, s, ls):
        x.close()
    return a, b, same


def s_send_on_unconnected(E):
    c = E.socket()
    r = (_exc(c.send, b"x"), _exc(c.recv, 1))
    c.close()
    return tuple("err" if x[0] == "exc" else x for x in r)


def s_first_send_after_peer_close(E):
    c, s, ls = E.pair()
    s.close()
    E.sleep(E.settle)
    r = _exc(c.send, b"x")  # the first write after a FIN succeeds
    c.close()
    ls.close()
    return r


def s_blocking_recv_woken_by_send(E):
    c, s, ls = E.pair()
    out = []

    def rx():
        out.append(s.recv(10))

    t = E.Thread(rx)
    t.start()
    E.sleep(E.settle)
    alive = t.is_alive()
    c.send(b"wake")
    t.join()
    for x in (c, s, ls):
        x.close()
    return alive, out, t.is_alive()


def s_blocking_recv_woken_by_close(E):
    c, s, ls = E.pair()
    out = []

    def rx():
        out.append(s.recv(10))

    t = E.Thread(rx)
    t.start()
    E.sleep(E.settle)
    c.close()
    t.join()
    s.close()
    ls.close()
    return out


def s_queue(E):
    q = E.Queue()
    r1 = _exc(q.get, False)
    t0 = E.now()
    r2 = _exc(q.get, True, 0.05)
    dt = E.now() - t0
    q.put(1)
    q.put(2)
    peek = q.queue[0]
    r3 = (q.get(), q.qsize(), q.empty(), q.get(False), q.empty())
    return r1, r2, 0.04 <= dt < 1.0, peek, r3


def s_queue_blocking_get(E):
    q = E.Queue()
    out = []

    def rx():
        out.append(q.get())
        out.append(q.get(True, 5))

    t = E.Thread(rx)
    t.start()
    E.sleep(E.settle)
    q.put("a")
    E.sleep(E.settle)
    q.put("b")
    t.join()
    return out


def s_event(E):
    e = E.Event()
    a = e.is_set()
    t0 = E.now()
    b = e.wait(0.05)
    dt = E.now() - t0
    e.set()
    c = (e.is_set(), e.wait(0.05), e.wait())
    e.clear()
    return a, b, 0.04 <= dt < 1.0, c, e.is_set()


def s_event_wakes_waiter(E):
    e = E.Event()
    out = []

    def w():
        out.append(e.wait(5))

    t = E.Thread(w)
    before = t.is_alive()
    t.start()
    E.sleep(E.settle)
    mid = t.is_alive()
    e.set()
    t.join()
    return before, mid, out, t.is_alive()


def s_lock(E):
    l = E.Lock()
    a = l.acquire()
    b = l.acquire(False)
    c = l.locked()
    l.release()
    d = l.locked()
    with l:
        e = l.locked()
    return a, b, c, d, e, _exc(l.release)[0]


def s_lock_contention(E):
    l = E.Lock()
    order = []

    def w():
        with l:
            order.append("w")

    l.acquire()
    t = E.Thread(w)
    t.start()
    E.sleep(E.settle)
    order.append("main")
    l.release()
    t.join()
    return order


def s_join_timeout(E):
    e = E.Event()
    t = E.Thread(lambda: e.wait(5))
    t.start()
    t0 = E.now()
    t.join(0.05)
    dt = E.now() - t0
    a = t.is_alive()
    e.set()
    t.join()
    return a, 0.04 <= dt < 1.0, t.is_alive()


SEQUENCES = [v for k, v in sorted(globals().items()) if k.startswith("s_") and callable(v)]


def run_all():
    """-> (n_sequences, mismatches[list of (name, real, sim)])"""
    bad = []
    for fn in SEQUENCES:
        real = RealEnv().run(fn)
        simr = SimEnv().run(fn)
        again = SimEnv().run(fn)
        if real != simr or simr != again:
            bad.append((fn.__name__, repr(real), repr(simr) + ("" if simr == again else f" / second run {again!r}")))
    return len(SEQUENCES), bad


if __name__ == "__main__":
    import sys

    n, bad = run_all()
    for b in bad:
        print("FIDELITY-MISMATCH", *b)
    print(f"fidelity: {n - len(bad)}/{n} operation sequences agree between the OS and the simulator")
    sys.exit(1 if bad else 0)
