"""Scripted raw peer against one real pynetdicom side (acceptor or requestor).

Script steps (executed by the peer's sim thread):
  ("send", bytes)        write bytes in one segment
  ("expect", n)          read until n complete PDUs were received in total
                         (gives up at EOF / after `patience` virtual seconds)
  ("sleep", seconds)
  ("close",) / ("reset",)
  ("silent",)            stop, keep the connection open for ever
"""
from __future__ import annotations

import struct

from vk import scen, sim
from vk.explore import Scenario


class RawPeerScenario(Scenario):
    max_steps = 60000
    max_time = 60.0

    def __init__(self, role, script, user=("associate", "echo", "release"), name="rawpeer", handlers=None, ae_setup=None, patience=20.0, user_fn=None):
        self.role = role  # role of the LOCAL (pynetdicom) side
        self.script = list(script)
        self.user = tuple(user)
        self.name = name
        self.extra_handlers = handlers
        self.ae_setup = ae_setup
        self.patience = patience
        self.user_fn = user_fn

    def build(self, s):
        from pynetdicom import evt

        ctx = {"res": {}, "acc_assocs": [], "handler_calls": [], "peer": {"rx": b"", "pdus": [], "log": [], "done": False, "t_done": None}, "user_log": [], "t_calls": []}
        rec = scen.Recorder(s, "loc")
        ctx["rec"] = rec
        P = ctx["peer"]

        def frame():
            data = P["rx"]
            i = 0
            pdus = []
            while i + 6 <= len(data):
                t, _, ln = struct.unpack(">BBL", data[i : i + 6])
                if i + 6 + ln > len(data):
                    break
                pdus.append((t, data[i : i + 6 + ln]))
                i += 6 + ln
            P["pdus"] = pdus

        def run_script(so):
            for step in self.script:
                op = step[0]
                if op == "send":
                    try:
                        so.send(step[1])
                        P["log"].append(("sent", len(step[1])))
                    except OSError as e:
                        P["log"].append(("send-failed", type(e).__name__))
                        break
                elif op == "expect":
                    so.settimeout(self.patience)
                    while len(P["pdus"]) < step[1]:
                        try:
                            d = so.recv(65536)
                        except (TimeoutError, OSError) as e:
                            P["log"].append(("expect-failed", type(e).__name__))
                            d = None
                        if not d:
                            P["log"].append(("expect-eof", len(P["pdus"]), step[1]))
                            break
                        P["rx"] += d
                        frame()
                    if len(P["pdus"]) < step[1]:
                        break
                elif op == "mark":
                    P["t_mark"] = s.now
                elif op == "sleep":
                    s.block("peer.sleep", None, None, timeout=step[1])
                elif op == "close":
                    so.close()
                elif op == "reset":
                    so.reset()
                elif op == "silent":
                    break
            P["done"] = True
            P["t_done"] = s.now
            # drain what the local side still sends (without blocking anyone)
            P["sock"] = so

        if self.role == "acceptor":
            ae = scen.make_ae("ACC")
            ae.add_supported_context(scen.VERIFICATION)
            if self.ae_setup:
                self.ae_setup(ae)
            handlers = list(rec.handlers())

            def on_echo(event):
                ctx["handler_calls"].append(("echo", event.request.MessageID))
                return 0

            handlers += [(evt.EVT_C_ECHO, on_echo), (evt.EVT_ESTABLISHED, lambda e: ctx["acc_assocs"].append(e.assoc)), (evt.EVT_REQUESTED, lambda e: ctx["res"].setdefault("assoc", e.assoc))]
            if self.extra_handlers:
                handlers += self.extra_handlers(ctx, s)
            scen.start_server(s, ae, handlers, max_requests=1)

            def peer_main():
                so = sim.SimSocket()
                so.connect(("127.0.0.1", scen.PORT))
                run_script(so)

            s.spawn(peer_main, "peer")
        else:
            ae = scen.make_ae("REQ")
            ae.add_requested_context(scen.VERIFICATION)
            if self.ae_setup:
                self.ae_setup(ae)
            lst = sim.SimSocket()
            lst.bind(("127.0.0.1", scen.PORT))
            lst.listen(1)

            def peer_main():
                so, _ = lst.accept()
                run_script(so)

            s.spawn(peer_main, "peer")

            def user_main():
                if self.user_fn:
                    self.user_fn(s, ae, rec, ctx)
                    return
                a = None
                for call in self.user:
                    t0 = s.now
                    try:
                        if call == "associate":
                            a = ae.associate("127.0.0.1", scen.PORT, evt_handlers=list(rec.handlers()) + (list(self.extra_handlers(ctx, s)) if self.extra_handlers else []))
                            ctx["res"]["assoc"] = a
                            ctx["res"]["established"] = a.is_established
                        elif a is None:
                            pass
                        elif call == "echo":
                            st = a.send_c_echo()
                            ctx["res"]["echo"] = st.Status if "Status" in st else None
                        elif call == "release":
                            a.release()
                        elif call == "abort":
                            a.abort()
                    except Exception as exc:
                        ctx["user_log"].append(("raised", call, type(exc).__name__))
                    ctx["t_calls"].append((call, round(t0 - s.t0, 4), round(s.now - s.t0, 4)))

            s.spawn(user_main, "user")
        return ctx

    def summary(self, s, ctx, why):
        a = ctx["res"].get("assoc")
        o = scen.assoc_outcome(a) if a is not None else None
        return (why, None if o is None else tuple(sorted(k for k, v in o.items() if v is True)), None if o is None else o["fsm"])


def local_recv_log(ctx):
    """(pdu class names notified by EVT_PDU_RECV, concatenated EVT_DATA_RECV bytes, fsm events)"""
    log = ctx["rec"].log
    return ([x[3] for x in log if x[2] == "EVT_PDU_RECV"], b"".join(x[3] for x in log if x[2] == "EVT_DATA_RECV"), [x[3] for x in log if x[2] == "EVT_FSM_TRANSITION"])
