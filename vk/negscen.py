"""Association negotiation between two real AEs under the simulator (default
schedule), used by C11 (both sides agree) and C12 (conformant RQ / AC)."""
from __future__ import annotations

from vk import explore, scen, sim, monitors as M
from vk.ref import codec as ref

A = "1.2.840.10008.1.1"
B = "1.2.840.10008.5.1.4.1.1.2"
Q = "1.2.840.10008.5.1.4.1.2.1.1"
U = "1.2.840.10008.5.1.4.1.1.999"  # not supported by anybody
T1, T2, T3 = "1.2.840.10008.1.2", "1.2.840.10008.1.2.1", "1.2.840.10008.1.2.2"


class Negotiate(explore.Scenario):
    """cfg: dict(
         requested=[(abstract, [ts...])...], roles={abstract: (scu, scp)},
         supported={abstract: ([ts...], scu_role, scp_role)},
         rq_title, acc_title, max_pdu, impl_uid, impl_version, ext=[names])"""

    max_steps = 60000
    max_time = 30.0

    def __init__(self, cfg, name="neg"):
        self.cfg = cfg
        self.name = name

    def build(self, s):
        from pynetdicom import build_context, build_role, evt
        from pynetdicom.pdu_primitives import AsynchronousOperationsWindowNegotiation, SOPClassCommonExtendedNegotiation, SOPClassExtendedNegotiation, UserIdentityNegotiation

        c = self.cfg
        ctx = {"res": {}, "acc": None}
        acc = scen.make_ae(c.get("acc_title", "ACC"))
        for ab, (tss, scu, scp) in c["supported"].items():
            acc.add_supported_context(ab, list(tss), scu_role=scu, scp_role=scp)
        if not c["supported"]:
            acc.add_supported_context("1.2.840.10008.5.1.4.1.1.4", [T1])

        def on_est(event):
            a = event.assoc
            ctx["acc"] = {"accepted": [(cx.context_id, str(cx.abstract_syntax), str(cx.transfer_syntax[0]), bool(cx.as_scu), bool(cx.as_scp)) for cx in a.accepted_contexts], "rejected": [(cx.context_id, cx.result) for cx in a.rejected_contexts]}

        handlers = [(evt.EVT_ESTABLISHED, on_est)]
        if "userid" in c.get("ext", ()):
            handlers.append((evt.EVT_USER_ID, lambda e: (True, b"ok" if c.get("userid_response") else None)))
        if "sopext" in c.get("ext", ()):
            handlers.append((evt.EVT_SOP_EXTENDED, lambda e: e.app_info))
        if "common" in c.get("ext", ()):
            handlers.append((evt.EVT_SOP_COMMON, lambda e: e.items))
        if "async" in c.get("ext", ()):
            handlers.append((evt.EVT_ASYNC_OPS, lambda e: (1, 1)))
        scen.start_server(s, acc, handlers, max_requests=1)
        rq = scen.make_ae(c.get("rq_title", "REQ"))
        if c.get("impl_uid"):
            rq.implementation_class_uid = c["impl_uid"]
        if "impl_version" in c:
            rq.implementation_version_name = c["impl_version"]
        contexts = [build_context(ab, list(tss)) for ab, tss in c["requested"]]
        # context objects that already carry an ID (e.g. reused from the
        # accepted_contexts of an earlier association)
        for cx, pid in zip(contexts, c.get("preset_ids", ())):
            if pid is not None:
                cx.context_id = pid
        ext = [build_role(ab, scu_role=r[0], scp_role=r[1]) for ab, r in c.get("roles", {}).items()]
        for e in c.get("ext", ()):
            if e == "async":
                o = AsynchronousOperationsWindowNegotiation()
                o.maximum_number_operations_invoked = 5
                o.maximum_number_operations_performed = 3
                ext.append(o)
            elif e == "sopext":
                o = SOPClassExtendedNegotiation()
                o.sop_class_uid = B
                o.service_class_application_information = b"\x01\x00\x01"
                ext.append(o)
            elif e == "common":
                o = SOPClassCommonExtendedNegotiation()
                o.sop_class_uid = B
                o.service_class_uid = "1.2.840.10008.4.2"
                o.related_general_sop_class_identification = ["1.2.840.10008.5.1.4.1.1.88.22"]
                ext.append(o)
            elif e == "userid":
                o = UserIdentityNegotiation()
                o.user_identity_type = c.get("userid_type", 1)
                o.primary_field = b"username"
                if o.user_identity_type == 2:
                    o.secondary_field = b"password"
                o.positive_response_requested = bool(c.get("userid_response"))
                ext.append(o)

        def user():
            try:
                a = rq.associate("127.0.0.1", scen.PORT, contexts=contexts, ext_neg=ext, max_pdu=c.get("max_pdu", 16382), ae_title=c.get("called", c.get("acc_title", "ACC")))
            except Exception as exc:
                ctx["res"]["raised"] = f"{type(exc).__name__}: {exc}"
                return
            ctx["res"]["established"] = a.is_established
            ctx["res"]["rejected"] = a.is_rejected
            ctx["res"]["aborted"] = a.is_aborted
            ctx["res"]["accepted"] = [(cx.context_id, str(cx.abstract_syntax), str(cx.transfer_syntax[0]), bool(cx.as_scu), bool(cx.as_scp)) for cx in a.accepted_contexts]
            ctx["res"]["rejected_cx"] = [(cx.context_id, cx.result) for cx in a.rejected_contexts]
            ctx["res"]["requested"] = [(cx.context_id, str(cx.abstract_syntax)) for cx in a.requestor.requested_contexts]
            if a.is_established:
                a.release()

        s.spawn(user, "user")
        return ctx

    def summary(self, s, ctx, why):
        w = scen.wire(s, 0) if s.net.conns else None
        rq_bytes = next((b for t, b in w["c"]["pdus"] if t == 1), None) if w else None
        ac_bytes = next((b for t, b in w["s"]["pdus"] if t in (2, 3)), None) if w else None
        exc = tuple(M.thread_exceptions(s))
        return (why, ctx["res"], ctx["acc"], rq_bytes, ac_bytes, exc)


def run_cfg(cfg):
    r = explore.execute(Negotiate(cfg), ())
    why, res, acc, rq_bytes, ac_bytes, exc = r["summary"]
    return {"why": why, "res": res, "acc": acc, "rq": rq_bytes, "ac": ac_bytes, "exc": exc}
