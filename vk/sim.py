"""E1 simkit - the real pynetdicom threads as coroutines under a controlled
scheduler with virtual time and simulated sockets (DESIGN.md section 2.1).

Nothing here is a model of pynetdicom: the code under test is the real
package; only the OS services it uses (time, queue, threading, socket,
select) are replaced by deterministic doubles whose every operation is a
scheduling point.
"""
from __future__ import annotations

import collections
import contextlib
import errno
import queue as _real_queue
import socket as _real_socket
import sys
import threading as _real_threading
import types

import greenlet

# ---------------------------------------------------------------------------
# scheduler

RUNNABLE, BLOCKED, DONE = "runnable", "blocked", "done"
POLL_MAX = 0.25  # sleeps up to this long are polling waits


class SimKilled(BaseException):
    """Thrown into coroutines to unwind an abandoned execution."""


class SimError(Exception):
    """Error of the simulation machinery itself (never a verdict)."""


class ReplayDivergence(SimError):
    pass


class SimThread:
    def __init__(self, sched, tid, name, fn, obj=None):
        self.sched = sched
        self.tid = tid
        self.name = name
        self.obj = obj
        self.status = RUNNABLE
        self.kind = "start"  # what it is parked at
        self.on = None  # name of the object blocked on
        self.cond = None
        self.deadline = None
        self.is_poll = False
        self.exc = None
        self.timed_out = False
        self.idle_mark = None  # activity counter when it last went to sleep in a poll
        self.idle = False
        self.steps = 0
        self.greenlet = greenlet.greenlet(self._body, parent=sched.main)
        self.fn = fn

    def _body(self):
        try:
            self.fn()
        except SimKilled:
            pass
        except BaseException as exc:  # uncaught exception in a thread  # noqa
            self.exc = exc
            self.sched.obs.append(("thread-exception", self.name, type(exc).__name__, str(exc)[:200]))
        finally:
            self.status = DONE
            self.kind = "done"
            self.t_exit = self.sched.now
            self.sched.bump()
            self.sched.obs.append(("thread-exit", self.name))

    def ready(self, now):
        if self.status == RUNNABLE:
            return True
        if self.status == BLOCKED:
            if self.cond is not None and self.cond():
                return True
            if self.deadline is not None and self.deadline <= now:
                return True
        return False

    def __repr__(self):
        return f"<{self.name} {self.status}/{self.kind} on={self.on} dl={self.deadline}>"


class DefaultChooser:
    """Deterministic default: index 0 (continue the running thread if it is
    ready, else round-robin, else the earliest deadline)."""

    def choose(self, sched, cands, info):
        return 0


class ReplayChooser:
    """Follow a recorded list of choices, then the default.  Records, for
    every decision, the number of candidates and their kinds so that the
    explorer can enumerate alternatives."""

    def __init__(self, prefix=(), adversarial=False):
        self.prefix = list(prefix)
        self.trace = []  # (n_candidates, chosen, info)
        self.adversarial = adversarial

    def choose(self, sched, cands, info):
        i = len(self.trace)
        if i < len(self.prefix):
            c = self.prefix[i]
            if c >= len(cands):
                raise ReplayDivergence(f"choice {c} at decision {i} but only {len(cands)} candidates ({info})")
        else:
            c = 0
        self.trace.append((len(cands), c, info))
        return c


class Sched:
    def __init__(self, chooser=None, max_steps=200000, max_time=600.0, adversarial=False, fast_forward=True):
        self.main = greenlet.getcurrent()
        self.threads: list[SimThread] = []
        self.now = 1000.0  # monotonic virtual clock
        self.wall_offset = 1.7e9  # wall = now + wall_offset
        self.chooser = chooser or DefaultChooser()
        self.current: SimThread | None = None
        self.last_tid = -1
        self.obs: list = []
        self.activity = 0
        self.mono = 0
        self.sig = 0  # XOR-accumulated hash of the sim-visible state (cyclic changes cancel)
        self.steps = 0
        self.max_steps = max_steps
        self.max_time = max_time
        self.t0 = self.now
        self.killing = False
        self.adversarial = adversarial
        self.fast_forward = fast_forward
        self.net = SimNet(self)
        self.timers = []  # weak-ish registry of Timer objects created during the run
        self.names = collections.Counter()
        self.outcome = None
        self.ff_jumps = 0
        self.point_kinds = collections.Counter()
        self.quiescent_hook = None
        self._hook_spin = 0

    # -- thread management
    def spawn(self, fn, name, obj=None) -> SimThread:
        self.names[name] += 1
        if self.names[name] > 1:
            name = f"{name}#{self.names[name]}"
        t = SimThread(self, len(self.threads), name, fn, obj)
        self.threads.append(t)
        self.bump()
        self.obs.append(("thread-start", t.name))
        return t

    def bump(self):
        """A non-cyclic state change (bytes moved, thread born/died ...)."""
        self.mono += 1
        self.sig ^= hash(("mono", self.mono - 1)) ^ hash(("mono", self.mono))
        self.activity += 1

    def mix(self, key, old, new):
        """Record a change of one state element in the state signature."""
        if old != new:
            self.sig ^= hash((key, old)) ^ hash((key, new))
            self.activity += 1

    def thread_of(self, obj):
        for t in self.threads:
            if t.obj is obj:
                return t
        return None

    def in_sim(self):
        return self.current is not None and greenlet.getcurrent() is self.current.greenlet

    # -- called from inside coroutines
    def _yield(self):
        if self.killing:
            raise SimKilled()
        self.main.switch()
        if self.killing:
            raise SimKilled()

    def point(self, kind, on=None):
        """A scheduling point at which the thread stays runnable."""
        t = self.current
        if t is None or greenlet.getcurrent() is not t.greenlet:
            return
        self.point_kinds[kind] += 1
        t.status = RUNNABLE
        t.kind = kind
        t.on = on
        self._yield()

    def block(self, kind, on, cond, timeout=None, poll=False):
        """Park until cond() or the deadline.  Returns True if cond held."""
        t = self.current
        if t is None or greenlet.getcurrent() is not t.greenlet:
            raise SimError(f"blocking operation {kind} on {on} outside a sim thread")
        self.point_kinds[kind] += 1
        t.status = BLOCKED
        t.kind = kind
        t.on = on
        t.cond = cond
        t.deadline = None if timeout is None else self.now + max(0.0, timeout)
        t.is_poll = poll
        if poll:
            mark = (self.sig, kind, on, len(self.threads), sum(1 for x in self.threads if x.status == DONE))
            t.idle = t.idle_mark == mark
            t.idle_mark = mark
        else:
            t.idle = False
            t.idle_mark = None
        self._yield()
        ok = cond() if cond is not None else False
        t.status = RUNNABLE
        t.cond = None
        t.deadline = None
        t.is_poll = False
        return ok

    def sleep(self, d):
        self.block("sleep", None, None, timeout=d, poll=d <= POLL_MAX)

    def env_choice(self, kind, options):
        """An answer of the environment that the schedule decides: options[0]
        is the default, any other one is a deviation like a thread switch."""
        if len(options) <= 1 or not self.in_sim():
            return options[0]
        info = tuple(("env", kind, o) for o in options)
        return options[self.chooser.choose(self, list(options), info)]

    # -- time
    def time(self):
        return self.now + self.wall_offset

    def monotonic(self):
        return self.now

    def timer_deadlines(self):
        out = []
        for tm in self.timers:
            st, en, to = tm._start_time, tm._end_time, tm._timeout
            if st is not None and en is None and to is not None:
                # timers read time.time() (wall) or monotonic depending on the tree
                clock = self.now + (self.wall_offset if st > 1e8 else 0.0)
                exp = st + to
                d = self.now + (exp - clock)
                if d <= self.now and not tm.expired:
                    # float rounding: the timer itself does not consider
                    # itself expired yet, so its expiry is still ahead
                    d = self.now + 1e-6
                out.append(d)
        return out

    # -- main loop
    def candidates(self):
        live = [t for t in self.threads if t.status != DONE]
        ready = [t for t in live if t.ready(self.now)]
        cur = None
        order = []
        n = len(self.threads)
        # round robin starting after the last run thread, running thread first
        for k in range(n):
            t = self.threads[(self.last_tid + k) % n] if self.last_tid >= 0 else self.threads[k]
            if t in ready:
                order.append(t)
        return live, order

    def run(self, until=None):
        """Run until every thread is done, `until()` is true (checked between
        steps), deadlock, or the horizon.  Returns the reason."""
        while True:
            if until is not None and until():
                return "until"
            live, ready = self.candidates()
            if not live:
                self.outcome = "terminated"
                return "terminated"
            if self.steps >= self.max_steps or self.now - self.t0 > self.max_time:
                self.outcome = "horizon"
                return "horizon"
            cands = [(t, "ready") for t in ready]
            if self.adversarial:
                # sleeping pollers may be run early (time passes)
                for t in live:
                    if t not in ready and t.status == BLOCKED and t.deadline is not None and t.is_poll:
                        cands.append((t, "early"))
            if not ready:
                # nothing is ready: time must pass (not a choice in prompt mode)
                if self.quiescent_hook is not None and self.all_idle(live):
                    r = self.quiescent_hook(self)
                    self._hook_spin = self._hook_spin + 1 if r is True else 0
                    if self._hook_spin > 1000:
                        raise SimError("quiescent hook keeps claiming progress but nothing becomes ready")
                    if r == "stop":
                        self.outcome = "script-end"
                        return "script-end"
                    if r:
                        continue
                dls = [t.deadline for t in live if t.deadline is not None]
                if not dls:
                    self.outcome = "deadlock"
                    return "deadlock"
                if self.fast_forward and self.all_idle(live) and not any(t.deadline is not None and not t.is_poll for t in live) and not any(d > self.now for d in self.timer_deadlines()):
                    # only pollers are left, each completed a full iteration
                    # that changed nothing, and no timer can ever fire: they
                    # spin forever
                    self.outcome = "livelock"
                    return "livelock"
                self._advance_idle(live)
                continue
            if len(cands) > 1:
                info = tuple((t.name, k, t.kind) for t, k in cands)
                idx = self.chooser.choose(self, cands, info)
            else:
                idx = 0
            t, how = cands[idx]
            if how == "early":
                self.now = max(self.now, t.deadline)
            self.steps += 1
            self._hook_spin = 0
            t.steps += 1
            self.current = t
            self.last_tid = t.tid
            t.greenlet.switch()
            self.current = None

    def all_idle(self, live):
        """Quiescent: every thread is blocked and every poller among them has
        completed a full iteration that changed nothing."""
        return all(t.idle and t.idle_mark[0] == self.sig for t in live if t.deadline is not None and t.is_poll)

    def _advance_idle(self, live):
        """No thread is ready.  Advance the clock to the earliest deadline; if
        every thread with a deadline is an idle poller (it has polled twice
        with no activity in between) jump straight to the next instant at
        which something can change (a non-poll deadline or a timer expiry)."""
        dls = [t.deadline for t in live if t.deadline is not None]
        nxt = min(dls)
        if self.fast_forward:
            pollers = [t for t in live if t.deadline is not None and t.is_poll]
            others = [t.deadline for t in live if t.deadline is not None and not t.is_poll]
            if pollers and all(t.idle and t.idle_mark[0] == self.sig for t in pollers):
                tds = [d for d in self.timer_deadlines() if d > self.now]
                horizon = self.t0 + self.max_time + 1.0
                target = min(others + tds + [horizon])
                if target > nxt + 0.003:
                    # land just before the instant; pollers resume polling there
                    shift = (target - 0.0015) - nxt
                    for t in pollers:
                        t.deadline += shift
                        t.idle = False
                        t.idle_mark = None
                    nxt = min(t.deadline for t in live if t.deadline is not None)
                    self.ff_jumps += 1
        self.now = max(self.now, nxt)

    # -- teardown
    def kill_all(self):
        self.killing = True
        for _ in range(50):
            alive = [t for t in self.threads if not t.greenlet.dead]
            if not alive:
                break
            for t in alive:
                if not t.greenlet:  # never started: killing it raises in the caller
                    try:
                        t.greenlet.throw(SimKilled)
                    except SimKilled:
                        pass
                    continue
                try:
                    self.current = t
                    t.greenlet.throw(SimKilled)
                except SimKilled:
                    pass
                finally:
                    self.current = None
        self.killing = False
        left = [t.name for t in self.threads if not t.greenlet.dead]
        if left:
            raise SimError(f"could not unwind coroutines {left}")

    def live_threads(self):
        return [t for t in self.threads if t.status != DONE]

    def describe_blocked(self):
        out = []
        for t in self.live_threads():
            fr = t.greenlet.gr_frame
            stack = []
            while fr is not None:
                fn = fr.f_code.co_filename
                if "pynetdicom" in fn:
                    stack.append(f"{fn.rsplit('/', 1)[-1]}:{fr.f_code.co_name}:{fr.f_lineno}")
                fr = fr.f_back
            out.append((t.name, t.status, t.kind, t.on, None if t.deadline is None else round(t.deadline - self.now, 4), stack[:6]))
        return out


_ACTIVE: Sched | None = None


def active() -> Sched:
    if _ACTIVE is None:
        raise SimError("no active scheduler")
    return _ACTIVE


# ---------------------------------------------------------------------------
# time


class SimTimeModule:
    """Stands in for the `time` module inside pynetdicom modules."""

    def __init__(self, real):
        self._real = real

    def time(self):
        return active().time()

    def monotonic(self):
        return active().monotonic()

    def perf_counter(self):
        return active().monotonic()

    def sleep(self, d):
        s = active()
        if s.in_sim():
            s.sleep(d)
        # outside a sim thread (harness code) sleeping is a no-op

    def __getattr__(self, k):
        return getattr(self._real, k)


# ---------------------------------------------------------------------------
# queue


class SimQueue:
    _n = 0

    def __init__(self, maxsize=0):
        self.queue = collections.deque()
        self.maxsize = maxsize
        self.ops = 0
        SimQueue._n += 1
        self.name = f"q{SimQueue._n}"

    def qsize(self):
        return len(self.queue)

    def empty(self):
        return not self.queue

    def put(self, item, block=True, timeout=None):
        s = active()
        s.point("q.put", self.name)
        self.queue.append(item)
        self.ops += 1
        s.mix(self.name, self.ops - 1, self.ops)

    put_nowait = put

    def get(self, block=True, timeout=None):
        s = active()
        if not s.in_sim():
            if self.queue:
                return self._pop(s)
            raise _real_queue.Empty
        if not block:
            s.point("q.get", self.name)
            if self.queue:
                return self._pop(s)
            raise _real_queue.Empty
        if self.queue:
            s.point("q.get", self.name)
        if not self.queue:
            s.block("q.get", self.name, lambda: bool(self.queue), timeout)
        if self.queue:
            return self._pop(s)
        raise _real_queue.Empty

    def _pop(self, s):
        self.ops += 1
        s.mix(self.name, self.ops - 1, self.ops)
        return self.queue.popleft()

    def get_nowait(self):
        return self.get(False)


class SimQueueModule:
    Queue = SimQueue
    Empty = _real_queue.Empty
    Full = _real_queue.Full
    SimpleQueue = SimQueue
    LifoQueue = _real_queue.LifoQueue
    PriorityQueue = _real_queue.PriorityQueue


# ---------------------------------------------------------------------------
# threading


class SimEvent:
    _n = 0

    def __init__(self):
        self._flag = False
        SimEvent._n += 1
        self.name = f"ev{SimEvent._n}"

    def is_set(self):
        return self._flag

    isSet = is_set

    def set(self):
        s = active()
        s.point("ev.set", self.name)
        s.mix(self.name, self._flag, True)
        self._flag = True

    def clear(self):
        s = active()
        s.point("ev.clear", self.name)
        s.mix(self.name, self._flag, False)
        self._flag = False

    def wait(self, timeout=None):
        s = active()
        if not s.in_sim():
            return self._flag
        if self._flag:
            s.point("ev.wait", self.name)
        if not self._flag:
            s.block("ev.wait", self.name, lambda: self._flag, timeout)
        return self._flag


class SimLock:
    _n = 0

    def __init__(self):
        self.holder = None
        SimLock._n += 1
        self.name = f"lock{SimLock._n}"

    def acquire(self, blocking=True, timeout=-1):
        s = active()
        me = s.current if s.in_sim() else "main"
        if not s.in_sim():
            if self.holder is None:
                self.holder = me
                return True
            raise SimError(f"{self.name} held by {self.holder} while harness code wants it")
        s.point("lock.acquire", self.name)
        if self.holder is not None:
            if not blocking:
                return False
            if self.holder is me:
                raise SimError(f"self-deadlock on {self.name} by {me}")
            ok = s.block("lock.acquire", self.name, lambda: self.holder is None, None if timeout is None or timeout < 0 else timeout)
            if not ok:
                return False
        self.holder = me
        s.mix(self.name, False, True)
        return True

    def release(self):
        s = active()
        if self.holder is None:
            raise RuntimeError("release unlocked lock")
        self.holder = None
        s.mix(self.name, True, False)
        if s.in_sim():
            s.point("lock.release", self.name)

    def locked(self):
        return self.holder is not None

    def __enter__(self):
        self.acquire()
        return self

    def __exit__(self, *a):
        self.release()
        return False


def _thread_name(thread) -> str:
    cls = type(thread).__name__
    if cls == "Association":
        return f"{thread.mode}.assoc"
    if cls == "DULServiceProvider":
        return f"{thread.assoc.mode}.dul"
    tgt = getattr(thread, "_target", None)
    if tgt is not None:
        n = getattr(tgt, "__name__", "") or getattr(getattr(tgt, "__func__", None), "__name__", "")
        if n:
            return f"thread.{n}"
    return f"thread.{cls}"


def _thread_start(self):
    s = _ACTIVE
    if s is None:
        raise SimError("Thread.start() with simulation patches installed but no active scheduler")
    if getattr(self, "_sim_started", False):
        raise RuntimeError("threads can only be started once")
    self._sim_started = True
    if s.in_sim():
        s.point("thread.start", _thread_name(self))
    s.spawn(self.run, _thread_name(self), obj=self)
    if s.in_sim() and getattr(s, "point_after_spawn", False):
        # opt-in: the freshly started thread may run before its starter executes its next statement
        s.point("thread.started", _thread_name(self))


def _thread_is_alive(self):
    s = _ACTIVE
    if s is None:
        return False
    t = s.thread_of(self)
    if s.in_sim():
        s.point("thread.is_alive", t.name if t else None)
    return t is not None and t.status != DONE


def _thread_join(self, timeout=None):
    s = active()
    t = s.thread_of(self)
    if t is None:
        return
    if s.in_sim() and t.status != DONE:
        s.block("thread.join", t.name, lambda: t.status == DONE, timeout)


class SimThreadingModule:
    """Stands in for `threading` in pynetdicom modules."""

    Thread = _real_threading.Thread
    Event = SimEvent
    Lock = SimLock
    RLock = SimLock
    Timer = _real_threading.Timer

    @staticmethod
    def enumerate():
        s = active()
        return [t.obj for t in s.threads if t.status != DONE and t.obj is not None]

    @staticmethod
    def current_thread():
        s = active()
        if s.in_sim() and s.current.obj is not None:
            return s.current.obj
        return _real_threading.current_thread()

    def __getattr__(self, k):
        return getattr(_real_threading, k)


# ---------------------------------------------------------------------------
# network


class Endpoint:
    """One side of a connection."""

    def __init__(self, conn, side):
        self.conn = conn
        self.side = side  # "c" (connector) / "s" (accepted)
        self.rx = collections.deque()  # chunks (bytes) in arrival order
        self.rx_eof = False  # peer closed / shut down its write side
        self.rx_reset = False
        self.closed = False

    @property
    def peer(self):
        return self.conn.s if self.side == "c" else self.conn.c


class Conn:
    def __init__(self, cid, caddr, saddr):
        self.cid = cid
        self.caddr = caddr
        self.saddr = saddr
        self.c = Endpoint(self, "c")
        self.s = Endpoint(self, "s")
        self.tap = {"c": [], "s": []}  # bytes sent by each side, in order (list of chunks)


class SimNet:
    def __init__(self, sched):
        self.sched = sched
        self.listeners = {}  # port -> SimSocket
        self.conns: list[Conn] = []
        self.next_port = 40000
        self.blackhole_ports = set()  # connect() never completes
        self.segment_limit = None  # optional max bytes returned by one recv
        self.send_to_closed_raises = False

    def ephemeral(self):
        self.next_port += 1
        return self.next_port


class SimSocket:
    _n = 0

    def __init__(self, family=_real_socket.AF_INET, type=_real_socket.SOCK_STREAM, proto=0, fileno=None):
        s = active()
        self.net = s.net
        self.family = family
        self.type = type
        self.timeout = None
        self.addr = None
        self.ep: Endpoint | None = None
        self.listening = False
        self.backlog = collections.deque()
        self.closed = False
        SimSocket._n += 1
        self._fd = 1000 + SimSocket._n
        self.name = f"sock{SimSocket._n}"

    # -- configuration
    def setsockopt(self, *a):
        pass

    def getsockopt(self, *a):
        return 0

    def settimeout(self, t):
        self.timeout = t

    def gettimeout(self):
        return self.timeout

    def setblocking(self, flag):
        self.timeout = None if flag else 0.0

    def fileno(self):
        return -1 if self.closed else self._fd

    def bind(self, addr):
        self._check_open()
        host, port = addr[0], addr[1]
        if port == 0:
            port = self.net.ephemeral()
        self.addr = (host or "127.0.0.1", port)

    def getsockname(self):
        self._check_open()
        return self.addr or ("0.0.0.0", 0)

    def getpeername(self):
        if self.ep is None:
            raise OSError(errno.ENOTCONN, "not connected")
        return self.ep.conn.saddr if self.ep.side == "c" else self.ep.conn.caddr

    def _check_open(self):
        if self.closed:
            raise OSError(errno.EBADF, "Bad file descriptor")

    # -- server side
    def listen(self, n=5):
        self._check_open()
        self.listening = True
        self.net.listeners[self.addr[1]] = self

    def accept(self):
        s = self.net.sched
        self._check_open()
        s.point("sock.accept", self.name)
        if not self.backlog:
            if self.timeout == 0.0:
                raise BlockingIOError(errno.EAGAIN, "would block")
            ok = s.block("sock.accept", self.name, lambda: bool(self.backlog) or self.closed, self.timeout)
            if self.closed:
                raise OSError(errno.EBADF, "Bad file descriptor")
            if not ok:
                raise TimeoutError("timed out")
        ep = self.backlog.popleft()
        s.bump()
        ns = SimSocket(self.family, self.type)
        ns.ep = ep
        ns.addr = ep.conn.saddr
        ns.timeout = None  # accepted sockets are blocking (CPython: no default timeout)
        ep.sock = ns
        return ns, ep.conn.caddr

    # -- client side
    def connect(self, addr):
        s = self.net.sched
        self._check_open()
        s.point("sock.connect", self.name)
        port = addr[1]
        if self.addr is None:
            self.addr = ("127.0.0.1", self.net.ephemeral())
        if port in self.net.blackhole_ports:
            s.block("sock.connect", self.name, lambda: False, self.timeout)
            raise TimeoutError("timed out")
        lst = self.net.listeners.get(port)
        if lst is None or lst.closed or not lst.listening:
            raise ConnectionRefusedError(errno.ECONNREFUSED, "Connection refused")
        conn = Conn(len(self.net.conns), self.addr, lst.addr)
        self.net.conns.append(conn)
        self.ep = conn.c
        conn.c.sock = self
        lst.backlog.append(conn.s)
        s.bump()
        s.obs.append(("net-connect", conn.cid))

    # -- data
    def send(self, data, flags=0):
        s = self.net.sched
        self._check_open()
        if self.ep is None:
            raise OSError(errno.ENOTCONN, "not connected")
        s.point("sock.send", self.name)
        if self.closed:
            raise OSError(errno.EBADF, "Bad file descriptor")
        ep = self.ep
        if ep.rx_reset:
            raise ConnectionResetError(errno.ECONNRESET, "Connection reset by peer")
        data = bytes(data)
        if ep.peer.closed:
            if self.net.send_to_closed_raises:
                raise BrokenPipeError(errno.EPIPE, "Broken pipe")
            # first write after the peer closed succeeds: the bytes do cross
            # the wire, the peer's stack just discards them and answers RST;
            # whether that RST is in before a later write is the
            # environment's choice (default: still in flight)
            ep.writes_after_peer_close = getattr(ep, "writes_after_peer_close", 0) + 1
            if ep.writes_after_peer_close > 1 and s.env_choice("send-after-peer-close", ("ok", "EPIPE")) == "EPIPE":
                raise BrokenPipeError(errno.EPIPE, "Broken pipe")
            ep.conn.tap[ep.side].append(data)
            return len(data)
        ep.conn.tap[ep.side].append(data)
        if data:
            ep.peer.rx.append(data)
        s.bump()
        return len(data)

    def sendall(self, data, flags=0):
        self.send(data)

    def recv(self, n, flags=0):
        s = self.net.sched
        self._check_open()
        if self.ep is None:
            raise OSError(errno.ENOTCONN, "not connected")
        ep = self.ep
        s.point("sock.recv", self.name)
        if self.closed:
            raise OSError(errno.EBADF, "Bad file descriptor")
        if not ep.rx and not ep.rx_eof and not ep.rx_reset:
            if self.timeout == 0.0:
                raise BlockingIOError(errno.EAGAIN, "would block")
            ok = s.block("sock.recv", self.name, lambda: bool(ep.rx) or ep.rx_eof or ep.rx_reset or self.closed, self.timeout)
            if self.closed:
                raise OSError(errno.EBADF, "Bad file descriptor")
            if not ok:
                raise TimeoutError("timed out")
        if ep.rx:
            chunk = ep.rx[0]
            lim = n if self.net.segment_limit is None else min(n, self.net.segment_limit)
            if len(chunk) <= lim:
                ep.rx.popleft()
                out = chunk
            else:
                out = chunk[:lim]
                ep.rx[0] = chunk[lim:]
            s.bump()
            return out
        if ep.rx_reset:
            raise ConnectionResetError(errno.ECONNRESET, "Connection reset by peer")
        return b""

    def readable(self):
        if self.closed:
            return False
        if self.listening:
            return bool(self.backlog)
        ep = self.ep
        return ep is not None and (bool(ep.rx) or ep.rx_eof or ep.rx_reset)

    def shutdown(self, how):
        self._check_open()
        if self.ep is None:
            raise OSError(errno.ENOTCONN, "not connected")
        s = self.net.sched
        if s.in_sim():
            s.point("sock.shutdown", self.name)
        if not self.ep.peer.rx_eof:
            self.ep.peer.rx_eof = True
            s.bump()
            s.obs.append(("net-shutdown", self.ep.conn.cid, self.ep.side))

    def close(self):
        if self.closed:
            return
        s = self.net.sched
        if s.in_sim():
            s.point("sock.close", self.name)
        self.closed = True
        s.bump()
        if self.listening:
            self.net.listeners.pop(self.addr[1], None)
            for ep in self.backlog:
                ep.peer.rx_reset = True
        if self.ep is not None:
            self.ep.closed = True
            if not self.ep.peer.rx_eof:
                self.ep.peer.rx_eof = True
            s.obs.append(("net-close", self.ep.conn.cid, self.ep.side))

    def reset(self):
        """Abortive close (RST) - harness/peer use only."""
        s = self.net.sched
        self.closed = True
        if self.ep is not None:
            self.ep.closed = True
            self.ep.peer.rx_reset = True
            self.ep.peer.rx.clear()
            s.obs.append(("net-reset", self.ep.conn.cid, self.ep.side))
        s.bump()

    def __enter__(self):
        return self

    def __exit__(self, *a):
        self.close()


class SimSocketModule:
    socket = SimSocket
    timeout = TimeoutError
    error = OSError

    @staticmethod
    def getaddrinfo(host, port, family=0, type=0, proto=0, flags=0):
        """Deterministic resolver: numeric IPv4, '' / None and localhost only
        (the real resolver is an uncontrolled input and costs syscalls)."""
        if host in (None, ""):
            host = "0.0.0.0"
        elif host == "localhost":
            host = "127.0.0.1"
        parts = str(host).split(".")
        if len(parts) == 4 and all(p.isdigit() and int(p) < 256 for p in parts):
            return [(_real_socket.AF_INET, _real_socket.SOCK_STREAM, 6, "", (host, port or 0))]
        return _real_socket.getaddrinfo(host, port, family, type, proto, flags)

    def __getattr__(self, k):
        return getattr(_real_socket, k)


class SimSelectModule:
    error = OSError

    @staticmethod
    def select(rlist, wlist, xlist, timeout=None):
        s = active()
        for so in rlist:
            if so.fileno() < 0:
                raise ValueError("file descriptor cannot be a negative integer (-1)")
        if s.in_sim():
            s.point("select", rlist[0].name if rlist else None)
        ready = [so for so in rlist if so.readable()]
        if not ready and timeout != 0 and s.in_sim():
            s.block("select", rlist[0].name if rlist else None, lambda: any(so.readable() or so.closed for so in rlist), timeout, poll=timeout is not None and timeout <= POLL_MAX)
            for so in rlist:
                if so.fileno() < 0:
                    raise ValueError("file descriptor cannot be a negative integer (-1)")
            ready = [so for so in rlist if so.readable()]
        return ready, list(wlist), []


# ---------------------------------------------------------------------------
# watched attributes: class-level data descriptors that make reads/writes of
# the shared outcome flags scheduling points


class Watched:
    def __init__(self, name, default):
        self.name = name
        self.key = "_w_" + name
        self.default = default

    def __get__(self, obj, owner=None):
        if obj is None:
            return self
        s = _ACTIVE
        if s is not None and s.current is not None:
            s.point("attr.r", self.name)
        return obj.__dict__.get(self.key, self.default)

    def __set__(self, obj, value):
        s = _ACTIVE
        if s is not None and s.current is not None:
            s.point("attr.w", self.name)
            old = obj.__dict__.get(self.key, self.default)
            if old != value:
                s.mix((id(obj), self.name), old, value)
        obj.__dict__[self.key] = value


WATCH = {
    "pynetdicom.association:Association": {
        "is_established": False,
        "is_released": False,
        "is_aborted": False,
        "is_rejected": False,
        "_kill": False,
        "_sent_abort": False,
        "_sent_release": False,
        "_is_paused": False,
    },
    "pynetdicom.dul:DULServiceProvider": {"_kill_thread": False},
    "pynetdicom.fsm:StateMachine": {"current_state": "Sta1"},
}


# ---------------------------------------------------------------------------
# installation


@contextlib.contextmanager
def installed(sched: Sched, watch=True):
    """Rebind the seams of the already imported pynetdicom modules to the sim
    doubles for the duration of one execution."""
    global _ACTIVE
    import importlib
    import socketserver

    import pynetdicom  # noqa
    from pynetdicom import _config

    if _ACTIVE is not None:
        raise SimError("nested simulation")
    mods = {n: importlib.import_module(f"pynetdicom.{n}") for n in ("dul", "association", "timer", "dimse", "fsm", "ae", "transport", "acse", "events")}
    saved = []

    def setattr_saved(obj, name, val):
        saved.append((obj, name, obj.__dict__.get(name, _MISSING) if isinstance(obj, type) else getattr(obj, name, _MISSING)))
        setattr(obj, name, val)

    tmod = SimTimeModule(__import__("time"))
    qmod = SimQueueModule()
    thmod = SimThreadingModule()
    somod = SimSocketModule()
    semod = SimSelectModule()
    SimQueue._n = SimEvent._n = SimLock._n = SimSocket._n = 0
    try:
        _ACTIVE = sched
        for m in ("dul", "association", "timer"):
            setattr_saved(mods[m], "time", tmod)
        for m in ("dul", "dimse", "fsm", "transport"):
            setattr_saved(mods[m], "queue", qmod)
        for m in ("association", "ae", "dimse", "transport"):
            setattr_saved(mods[m], "threading", thmod)
        setattr_saved(mods["transport"], "socket", somod)
        setattr_saved(mods["transport"], "select", semod)
        setattr_saved(socketserver, "socket", somod)
        T = _real_threading.Thread
        setattr_saved(T, "start", _thread_start)
        setattr_saved(T, "is_alive", _thread_is_alive)
        setattr_saved(T, "join", _thread_join)
        # timers register themselves so that idle time can be skipped
        Timer = mods["timer"].Timer
        orig_init = Timer.__init__

        def timer_init(self, timeout):
            orig_init(self, timeout)
            sched.timers.append(self)

        setattr_saved(Timer, "__init__", timer_init)
        if watch:
            for spec, attrs in WATCH.items():
                mn, cn = spec.split(":")
                cls = getattr(importlib.import_module(mn), cn)
                for a, d in attrs.items():
                    setattr_saved(cls, a, Watched(a, d))
        setattr_saved(_config, "LOG_HANDLER_LEVEL", "none")
        yield sched
    finally:
        try:
            sched.kill_all()
        finally:
            for obj, name, old in reversed(saved):
                if old is _MISSING:
                    try:
                        delattr(obj, name)
                    except AttributeError:
                        pass
                else:
                    setattr(obj, name, old)
            _ACTIVE = None


_MISSING = object()


def new_ae_lock(ae):
    """AE._lock is a real lock created in AE.__init__ - replace when the AE
    was built outside `installed` (inside it is already a SimLock)."""
    if not isinstance(ae._lock, SimLock):
        ae._lock = SimLock()
    return ae
