SPECIFICATION Spec
CONSTANT AnyStart = TRUE
INVARIANT TypeOK
INVARIANT IdleClosed
