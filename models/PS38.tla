------------------------------- MODULE PS38 -------------------------------
(* Independent transcription of DICOM PS3.8 section 9.2: Table 9-10 (state  *)
(* transition table) and Tables 9-6..9-9 (actions).  Written from the       *)
(* standard (see DESIGN.md appendix A.3), not from pynetdicom/fsm.py.       *)
(* Every edge and every non-edge of the dumped graph is replayed against    *)
(* the real StateMachine.do_action by vk/checks/c04.py.                     *)
EXTENDS Naturals, FiniteSets, TLC

CONSTANT AnyStart     \* TRUE: Init ranges over all 13 states (edge dump)
                      \* FALSE: Init is Sta1 and events follow the role (sanity run)

States == 1..13
Events == 1..19
Roles  == {"requestor", "acceptor"}

VARIABLES state, role, lastEvt, lastAct, pvok, fx
vars == <<state, role, lastEvt, lastAct, pvok, fx>>

NoFx == [pdu |-> "none", src |-> "na", ind |-> "none", artim |-> "none", tr |-> "none"]

(* ---- Table 9-10: (event, state) -> action name, "none" = not allowed ---- *)
Entry(e, s) ==
  CASE e = 1  -> IF s = 1 THEN "AE-1" ELSE "none"
    [] e = 2  -> IF s = 4 THEN "AE-2" ELSE "none"
    [] e = 3  -> CASE s = 2 -> "AA-1" [] s = 3 -> "AA-8" [] s = 5 -> "AE-3"
                   [] s \in 6..12 -> "AA-8" [] s = 13 -> "AA-6" [] OTHER -> "none"
    [] e = 4  -> CASE s = 2 -> "AA-1" [] s = 3 -> "AA-8" [] s = 5 -> "AE-4"
                   [] s \in 6..12 -> "AA-8" [] s = 13 -> "AA-6" [] OTHER -> "none"
    [] e = 5  -> IF s = 1 THEN "AE-5" ELSE "none"
    [] e = 6  -> CASE s = 2 -> "AE-6" [] s = 3 -> "AA-8" [] s \in 5..12 -> "AA-8"
                   [] s = 13 -> "AA-7" [] OTHER -> "none"
    [] e = 7  -> IF s = 3 THEN "AE-7" ELSE "none"
    [] e = 8  -> IF s = 3 THEN "AE-8" ELSE "none"
    [] e = 9  -> CASE s = 6 -> "DT-1" [] s = 8 -> "AR-7" [] OTHER -> "none"
    [] e = 10 -> CASE s = 2 -> "AA-1" [] s = 3 -> "AA-8" [] s = 5 -> "AA-8"
                   [] s = 6 -> "DT-2" [] s = 7 -> "AR-6" [] s \in 8..12 -> "AA-8"
                   [] s = 13 -> "AA-6" [] OTHER -> "none"
    [] e = 11 -> IF s = 6 THEN "AR-1" ELSE "none"
    [] e = 12 -> CASE s = 2 -> "AA-1" [] s = 3 -> "AA-8" [] s = 5 -> "AA-8"
                   [] s = 6 -> "AR-2" [] s = 7 -> "AR-8" [] s \in 8..12 -> "AA-8"
                   [] s = 13 -> "AA-6" [] OTHER -> "none"
    [] e = 13 -> CASE s = 2 -> "AA-1" [] s = 3 -> "AA-8" [] s = 5 -> "AA-8"
                   [] s = 6 -> "AA-8" [] s = 7 -> "AR-3" [] s = 8 -> "AA-8"
                   [] s = 9 -> "AA-8" [] s = 10 -> "AR-10" [] s = 11 -> "AR-3"
                   [] s = 12 -> "AA-8" [] s = 13 -> "AA-6" [] OTHER -> "none"
    [] e = 14 -> CASE s = 8 -> "AR-4" [] s = 9 -> "AR-9" [] s = 12 -> "AR-4"
                   [] OTHER -> "none"
    [] e = 15 -> CASE s = 3 -> "AA-1" [] s = 4 -> "AA-2" [] s \in 5..12 -> "AA-1"
                   [] OTHER -> "none"
    [] e = 16 -> CASE s = 2 -> "AA-2" [] s = 3 -> "AA-3" [] s \in 5..12 -> "AA-3"
                   [] s = 13 -> "AA-2" [] OTHER -> "none"
    [] e = 17 -> CASE s = 2 -> "AA-5" [] s \in 3..12 -> "AA-4" [] s = 13 -> "AR-5"
                   [] OTHER -> "none"
    [] e = 18 -> CASE s = 2 -> "AA-2" [] s = 13 -> "AA-2" [] OTHER -> "none"
    [] e = 19 -> CASE s = 2 -> "AA-1" [] s = 3 -> "AA-8" [] s \in 5..12 -> "AA-8"
                   [] s = 13 -> "AA-7" [] OTHER -> "none"

(* ---- Tables 9-6..9-9: next state of each action ---- *)
NextState(a, r, pv) ==
  CASE a = "AE-1" -> 4  [] a = "AE-2" -> 5  [] a = "AE-3" -> 6  [] a = "AE-4" -> 1
    [] a = "AE-5" -> 2  [] a = "AE-6" -> (IF pv THEN 3 ELSE 13)
    [] a = "AE-7" -> 6  [] a = "AE-8" -> 13
    [] a = "DT-1" -> 6  [] a = "DT-2" -> 6
    [] a = "AR-1" -> 7  [] a = "AR-2" -> 8  [] a = "AR-3" -> 1  [] a = "AR-4" -> 13
    [] a = "AR-5" -> 1  [] a = "AR-6" -> 7  [] a = "AR-7" -> 8
    [] a = "AR-8" -> (IF r = "requestor" THEN 9 ELSE 10)
    [] a = "AR-9" -> 11 [] a = "AR-10" -> 12
    [] a = "AA-1" -> 13 [] a = "AA-2" -> 1  [] a = "AA-3" -> 1  [] a = "AA-4" -> 1
    [] a = "AA-5" -> 1  [] a = "AA-6" -> 13 [] a = "AA-7" -> 13 [] a = "AA-8" -> 13

(* ---- effects: PDU sent (+abort source), indication to the user, ARTIM,  *)
(* ---- transport                                                           *)
F(p, s, i, t, x) == [pdu |-> p, src |-> s, ind |-> i, artim |-> t, tr |-> x]
Effects(a, pv) ==
  CASE a = "AE-1" -> F("none", "na", "none", "none", "connect")
    [] a = "AE-2" -> F("A-ASSOCIATE-RQ", "na", "none", "none", "none")
    [] a = "AE-3" -> F("none", "na", "assoc-confirm-accept", "none", "none")
    [] a = "AE-4" -> F("none", "na", "assoc-confirm-reject", "none", "close")
    [] a = "AE-5" -> F("none", "na", "none", "start", "none")
    [] a = "AE-6" -> IF pv THEN F("none", "na", "assoc-indication", "stop", "none")
                           ELSE F("A-ASSOCIATE-RJ", "acse-provider-protocol-version", "none", "stopstart", "none")
    [] a = "AE-7" -> F("A-ASSOCIATE-AC", "na", "none", "none", "none")
    [] a = "AE-8" -> F("A-ASSOCIATE-RJ", "na", "none", "start", "none")
    [] a = "DT-1" -> F("P-DATA-TF", "na", "none", "none", "none")
    [] a = "DT-2" -> F("none", "na", "p-data", "none", "none")
    [] a = "AR-1" -> F("A-RELEASE-RQ", "na", "none", "none", "none")
    [] a = "AR-2" -> F("none", "na", "release-indication", "none", "none")
    [] a = "AR-3" -> F("none", "na", "release-confirm", "none", "close")
    [] a = "AR-4" -> F("A-RELEASE-RP", "na", "none", "start", "none")
    [] a = "AR-5" -> F("none", "na", "none", "stop", "closed-by-peer")
    [] a = "AR-6" -> F("none", "na", "p-data", "none", "none")
    [] a = "AR-7" -> F("P-DATA-TF", "na", "none", "none", "none")
    [] a = "AR-8" -> F("none", "na", "release-indication", "none", "none")
    [] a = "AR-9" -> F("A-RELEASE-RP", "na", "none", "none", "none")
    [] a = "AR-10" -> F("none", "na", "release-confirm", "none", "none")
    [] a = "AA-1" -> F("A-ABORT", "user", "none", "start", "none")
    [] a = "AA-2" -> F("none", "na", "none", "stop", "close")
    [] a = "AA-3" -> F("none", "na", "abort-indication", "none", "close")
    [] a = "AA-4" -> F("none", "na", "p-abort-indication", "none", "closed-by-peer")
    [] a = "AA-5" -> F("none", "na", "none", "stop", "closed-by-peer")
    [] a = "AA-6" -> F("none", "na", "none", "none", "none")
    [] a = "AA-7" -> F("A-ABORT", "any", "none", "none", "none")
    [] a = "AA-8" -> F("A-ABORT", "provider", "p-abort-indication", "start", "none")

(* events a role's own side can raise from Sta1 (sanity run only) *)
RoleAllows(e, s, r) ==
  IF s = 1 THEN (IF r = "requestor" THEN e = 1 ELSE e = 5) ELSE TRUE

Init ==
  /\ state \in (IF AnyStart THEN States ELSE {1})
  /\ role \in Roles
  /\ lastEvt = 0 /\ lastAct = "init" /\ pvok = TRUE /\ fx = NoFx

Fire(e) ==
  /\ Entry(e, state) # "none"
  /\ (AnyStart \/ RoleAllows(e, state, role))
  /\ \E pv \in BOOLEAN :
       /\ (Entry(e, state) # "AE-6" => pv = TRUE)
       /\ LET a == Entry(e, state) IN
            /\ state' = NextState(a, role, pv)
            /\ lastAct' = a
            /\ pvok' = pv
            /\ fx' = Effects(a, pv)
  /\ lastEvt' = e
  /\ role' = role

Evt1 == Fire(1)   Evt2 == Fire(2)   Evt3 == Fire(3)   Evt4 == Fire(4)
Evt5 == Fire(5)   Evt6 == Fire(6)   Evt7 == Fire(7)   Evt8 == Fire(8)
Evt9 == Fire(9)   Evt10 == Fire(10) Evt11 == Fire(11) Evt12 == Fire(12)
Evt13 == Fire(13) Evt14 == Fire(14) Evt15 == Fire(15) Evt16 == Fire(16)
Evt17 == Fire(17) Evt18 == Fire(18) Evt19 == Fire(19)

Next == \/ Evt1 \/ Evt2 \/ Evt3 \/ Evt4 \/ Evt5 \/ Evt6 \/ Evt7 \/ Evt8 \/ Evt9
        \/ Evt10 \/ Evt11 \/ Evt12 \/ Evt13 \/ Evt14 \/ Evt15 \/ Evt16 \/ Evt17
        \/ Evt18 \/ Evt19

Spec == Init /\ [][Next]_vars

(* ---- sanity of the transcription itself ---- *)
TypeOK == state \in States /\ role \in Roles /\ lastEvt \in 0..19

Defined == {<<e, s>> \in Events \X States : Entry(e, s) # "none"}
\* Table 9-10 has 123 non-blank cells (counted from the standard's table rows
\* as transcribed in DESIGN.md A.3)
ASSUME Cardinality(Defined) = 123

\* With a role-consistent start, states only occur on the side that owns them
RoleInv == ~AnyStart =>
  /\ (state \in {4, 5, 9, 11} => role = "requestor")
  /\ (state \in {2, 3, 10, 12} => role = "acceptor")

\* ARTIM runs exactly in Sta2 and Sta13 (PS3.8 9.1.5); a model-level check that
\* the start/stop effects are consistent with the states that own the timer
ArtimInv == ~AnyStart => (lastAct # "init" =>
  /\ (state \in {2, 13} => fx.artim \in {"start", "stopstart", "none"})
  /\ (state \notin {2, 13} => fx.artim \in {"stop", "none"}))

\* Whenever the machine is back in idle the transport is closed
IdleClosed == (lastAct # "init" /\ state = 1) => fx.tr \in {"close", "closed-by-peer"}
=============================================================================
