SPECIFICATION Spec
CONSTANT AnyStart = FALSE
INVARIANT TypeOK
INVARIANT RoleInv
INVARIANT ArtimInv
INVARIANT IdleClosed
